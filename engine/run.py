#!/usr/bin/env python3
"""Solver-based checking of the real rs-matter code: engine.

  run.py check <PROP> [--tier quick|thorough]     decide one property (exit 0 / 1 / 2)
  run.py build                                   (re-)encode /repo with Kani (cached by cargo)
  run.py list                                    list harnesses found in the encoding
  run.py harness <name-substring> [...]          run single harnesses, print details
  run.py replay <replay.json>                    re-run a stored counterexample natively

Pipeline per harness (see DESIGN.md 2.1/2.2): the Kani compiler encodes /repo's current working
tree into one goto binary per proof harness; this runner links it with the Kani C library,
instruments it exactly like the official driver and hands it to CBMC (CaDiCaL), or - for harnesses
tagged `arith` - exports the verification conditions as SMT-LIB2 and decides them with cvc5 / z3.
"""
import argparse
import concurrent.futures as cf
import fcntl
import glob
import hashlib
import json
import os
import re
import resource
import shutil
import subprocess
import sys
import time

sys.path.insert(0, os.path.dirname(os.path.abspath(__file__)))
import harness_cfg  # noqa: E402

VERIF = "/verif"
# The registered commands always work on /repo and /verif/.build. The two overrides exist only
# for tuning runs against a scratch worktree while /repo is busy; nothing produced that way is
# evidence (the evidence file is then written below the scratch build directory).
REPO = os.environ.get("VERIF_SCRATCH_REPO", "/repo")
BUILD = os.environ.get("VERIF_SCRATCH_BUILD", os.path.join(VERIF, ".build"))
SCRATCH = "VERIF_SCRATCH_REPO" in os.environ or "VERIF_SCRATCH_BUILD" in os.environ
OUT = BUILD if SCRATCH else VERIF  # where evidence/ and replay/ are written
KANI_TARGET = os.path.join(BUILD, "kani")
REPLAY_TARGET = os.path.join(BUILD, "replay")
WORK = os.path.join(BUILD, "work")
KLIB = "/root/.kani/kani-0.68.0/library/kani/kani_lib.c"
# max-sessions-3: the smallest session-table configuration of the crate (the default is 16). Every
# harness that touches `Sessions` pays for the whole table in CBMC (16 x ~600 B copied on every
# swap_remove / push); measured 2-6x faster and the difference between OOM and a verdict.
FEATURES = "std,groups,case-resumption,max-sessions-3"
REPLAY_FEATURES = "std,groups,case-resumption,max-sessions-3"
ENV = dict(os.environ, CARGO_NET_OFFLINE="true")

CBMC_FLAGS = [
    "--no-malloc-may-fail", "--no-undefined-shift-check", "--no-signed-overflow-check",
    "--nan-check", "--no-self-loops-to-assumptions", "--no-pointer-primitive-check",
    "--object-bits", "16", "--slice-formula",
]

# q = quick + thorough tier, t = thorough tier only, x = experimental (never part of a registered
# check: bounds that did not finish within the caps; runnable with `run.py harness <name>`)
NAME_RE = re.compile(r"(?:^|::)c(\d\d)_([qtx])_[A-Za-z0-9_]+$")


def log(*a):
    print(*a, flush=True)


# --------------------------------------------------------------------------------------------
# encode
# --------------------------------------------------------------------------------------------
def build():
    """Encode /repo's working tree with the Kani compiler. cargo's fingerprints are the cache."""
    os.makedirs(BUILD, exist_ok=True)
    t0 = time.time()
    with open(os.path.join(BUILD, "lock"), "w") as lk:
        fcntl.flock(lk, fcntl.LOCK_EX)
        # cargo-kani re-runs the Kani compiler on the workspace crate on every invocation (2 min)
        # even when nothing changed; so the encoder's inputs are fingerprinted here: every file of
        # the repository that can influence the encoding + the harness files. Any difference =>
        # full re-encode of /repo's current working tree.
        digest = tree_digest()
        stamp = os.path.join(BUILD, "encode.stamp")
        if os.path.exists(stamp) and open(stamp).read() == digest:
            metas = find_metas()
            if metas:
                metas.sort(key=os.path.getmtime)
                try:
                    meta = json.load(open(metas[-1]))
                    if all(os.path.exists(h["goto_file"]) for h in meta["proof_harnesses"][:5]):
                        return meta, time.time() - t0
                except Exception:
                    pass
        cmd = ["cargo", "kani", "-p", "rs-matter", "--no-default-features", "--features", FEATURES,
               "--target-dir", KANI_TARGET, "--only-codegen", "-Z", "stubbing"]
        r = subprocess.run(cmd, cwd=REPO, env=ENV, capture_output=True, text=True)
        open(os.path.join(BUILD, "build.log"), "w").write(r.stdout + r.stderr)
        if r.returncode != 0:
            log("ENCODE-FAILED (cargo kani --only-codegen exit %d); tail of the log:" % r.returncode)
            log("\n".join((r.stdout + r.stderr).splitlines()[-40:]))
            return None, time.time() - t0
        metas = find_metas()
        if not metas:
            log("ENCODE-FAILED: no kani-metadata.json")
            return None, time.time() - t0
        metas.sort(key=os.path.getmtime)
        meta = json.load(open(metas[-1]))
        prune_stale(metas[-1])
        open(stamp, "w").write(digest)
    return meta, time.time() - t0


def tree_digest():
    h = hashlib.sha256()
    roots = [os.path.join(REPO, d) for d in ("rs-matter", "rs-matter-macros", "rs-matter-codegen")]
    files = [os.path.join(REPO, "Cargo.toml"), os.path.join(REPO, "Cargo.lock")]
    for root in roots:
        for dp, dn, fn in os.walk(root):
            dn[:] = sorted(d for d in dn if d not in ("target", ".git"))
            for f in sorted(fn):
                files.append(os.path.join(dp, f))
    for f in sorted(glob.glob(os.path.join(VERIF, "kani", "*.rs"))):
        files.append(f)
    h.update(FEATURES.encode())
    for f in files:
        try:
            with open(f, "rb") as fh:
                h.update(f.encode())
                h.update(b"\0")
                h.update(fh.read())
        except OSError:
            h.update(b"<missing>")
    return h.hexdigest()


def find_metas():
    return glob.glob(os.path.join(KANI_TARGET, "kani", "*", "debug", "build", "rs-matter", "*", "out",
                                  "rs_matter-*.kani-metadata.json"))


def prune_stale(meta_path):
    """Kani leaves ~300 MB per distinct argument set; keep only the newest outputs."""
    keep = os.path.dirname(os.path.dirname(meta_path))  # .../build/rs-matter/<hash>
    root = os.path.dirname(keep)
    for f in os.listdir(root):
        p = os.path.join(root, f)
        if p != keep and os.path.isdir(p):
            shutil.rmtree(p, ignore_errors=True)


def harnesses(meta):
    out = []
    for h in meta["proof_harnesses"]:
        m = NAME_RE.search(h["pretty_name"])
        if not m:
            continue
        short = h["pretty_name"].split("::")[-1]
        out.append(dict(
            name=short, pretty=h["pretty_name"], prop="C" + m.group(1), tier=m.group(2),
            goto=h["goto_file"], mangled=h["mangled_name"],
            unwind=h["attributes"].get("unwind_value"),
            stubs=h["attributes"].get("stubs", []),
            src=h.get("original_file"), line=h.get("original_start_line"),
        ))
    return out


# --------------------------------------------------------------------------------------------
# decide
# --------------------------------------------------------------------------------------------
def limit(mem_gb):
    def f():
        b = int(mem_gb * (1 << 30))
        resource.setrlimit(resource.RLIMIT_AS, (b, b))
        os.setsid()
    return f


def sh(cmd, timeout=None, mem_gb=None):
    try:
        return subprocess.run(cmd, capture_output=True, text=True, timeout=timeout,
                              preexec_fn=limit(mem_gb) if mem_gb else None)
    except subprocess.TimeoutExpired as e:
        class R:
            returncode = -9
            stdout = (e.stdout or b"").decode() if isinstance(e.stdout, bytes) else (e.stdout or "")
            stderr = "TIMEOUT"
        return R()


def prepare(h):
    """goto-cc / goto-instrument steps of the official driver. Cached by the goto file's hash."""
    wd = os.path.join(WORK, h["name"])
    os.makedirs(wd, exist_ok=True)
    out = os.path.join(wd, "harness.goto")
    sig = hashlib.sha256(open(h["goto"], "rb").read()).hexdigest()
    sigf = os.path.join(wd, "sig")
    if os.path.exists(out) and os.path.exists(sigf) and open(sigf).read() == sig:
        return out, None
    steps = [
        ["goto-cc", h["goto"], KLIB, "-o", out],
        ["goto-cc", out, "--function", h["mangled"], "-o", out],
        ["goto-instrument", "--add-library", "--no-malloc-may-fail", out, out],
        ["goto-instrument", "--generate-function-body-options", "assert-false-assume-false",
         "--generate-function-body", ".*", "--drop-unused-functions", out, out],
        ["goto-instrument", "--ensure-one-backedge-per-target", out, out],
    ]
    for s in steps:
        r = sh(s, timeout=600)
        if r.returncode != 0:
            return None, "prepare failed: %s: %s" % (" ".join(s[:3]), (r.stderr or r.stdout)[-400:])
    open(sigf, "w").write(sig)
    return out, None


def cbmc_cmd(h, cfg, binary, extra=()):
    cmd = ["cbmc"] + CBMC_FLAGS + ["--sat-solver", cfg.get("sat", "cadical")]
    if h["unwind"] is not None:
        cmd += ["--unwind", str(h["unwind"]), "--unwinding-assertions"]
    for us in cfg.get("unwindset", []):
        cmd += ["--unwindset", us]
    cmd += list(extra) + [binary, "--json-ui"]
    return cmd


def parse_cbmc_json(text):
    try:
        js = json.loads(text)
    except Exception:
        # truncated output (timeout / OOM): try to salvage nothing
        return None, None, []
    res, status, msgs = None, None, []
    for item in js:
        if "result" in item:
            res = item["result"]
        if "cProverStatus" in item:
            status = item["cProverStatus"]
        if "messageText" in item:
            msgs.append(item["messageText"])
    return res, status, msgs


CHECK_ID = re.compile(r"^\[?(KANI_CHECK_ID_[^\]\s]+)\]?\s*")


def pclass(p):
    parts = p["property"].rsplit(".", 2)
    return parts[-2] if len(parts) >= 3 else "?"


def role_of(p):
    d = CHECK_ID.sub("", p.get("description", ""))
    loc = p.get("sourceLocation", {})
    f = loc.get("file", "")
    if f.startswith(os.path.join(VERIF, "kani")) and pclass(p) == "assertion" and d.startswith("ROLE:"):
        return d[5:]
    # failures inside the code under check: key by class + function + text (line numbers drift)
    return "%s in %s: %s" % (pclass(p), loc.get("function", "?"), d)


def classify(h, res):
    """-> dict(failures=[..], inconclusive=[..], n_decided, n_assert_reached, covers_sat, covers_unsat)"""
    reach = {}
    for p in res:
        if pclass(p) == "reachability_check":
            m = CHECK_ID.match(p.get("description", ""))
            key = m.group(1) if m else p.get("description", "")
            reach[key] = p["status"]  # FAILURE = reached
    out = dict(failures=[], inconclusive=[], decided=0, harness_asserts=0, harness_asserts_reached=0,
               covers_sat=0, covers_unsat=[], by_class={})
    for p in res:
        c = pclass(p)
        out["by_class"][c] = out["by_class"].get(c, 0) + 1
        st = p["status"]
        loc = p.get("sourceLocation", {})
        in_harness = loc.get("file", "").startswith(os.path.join(VERIF, "kani"))
        if c == "reachability_check":
            continue
        if c == "cover":
            if st in ("FAILURE", "SATISFIED"):
                out["covers_sat"] += 1
            else:
                out["covers_unsat"].append("%s:%s" % (loc.get("file", "?").split("/")[-1], loc.get("line")))
            continue
        out["decided"] += 1
        if c == "unwind":
            if st != "SUCCESS":
                out["inconclusive"].append("unwinding bound too small at %s:%s (%s)" % (
                    loc.get("file", "?").split("/")[-1], loc.get("line"), loc.get("function", "")))
            continue
        if c == "unsupported_construct":
            if st != "SUCCESS":
                out["inconclusive"].append("unsupported construct reachable: " + p.get("description", "")[:120])
            continue
        if in_harness and c == "assertion" and "ROLE:" in p.get("description", ""):
            out["harness_asserts"] += 1
            m = CHECK_ID.match(p.get("description", ""))
            reached = reach.get(m.group(1)) if m else None
            if reached == "FAILURE" or st == "FAILURE":
                out["harness_asserts_reached"] += 1
            elif reached == "SUCCESS" and "ROLE:NEVER:" in p.get("description", ""):
                out["harness_asserts"] -= 1  # expected-unreachable guard of vok!/vsome!
            elif reached == "SUCCESS":
                out["inconclusive"].append("vacuous: assertion never reached: %s (line %s)" % (role_of(p), loc.get("line")))
        if st == "FAILURE":
            out["failures"].append(dict(property=p["property"], role=role_of(p), cls=c,
                                        file=loc.get("file"), line=loc.get("line"),
                                        function=loc.get("function")))
        elif st not in ("SUCCESS",):
            out["inconclusive"].append("status %s for %s" % (st, p["property"]))
    for cu in out["covers_unsat"]:
        out["inconclusive"].append("cover not satisfiable at " + cu)
    return out


class MemGate:
    """Admission control: the address-space caps of the harnesses running at any time sum to at
    most VERIF_MEM_GB (default 64: the caps are upper bounds that are rarely reached together;
    the machine has 62 GB and no swap)."""

    def __init__(self, total):
        import threading
        self.total, self.used, self.cv = total, 0, threading.Condition()

    def acquire(self, n):
        n = min(n, self.total)
        with self.cv:
            while self.used + n > self.total:
                self.cv.wait()
            self.used += n
        return n

    def release(self, n):
        with self.cv:
            self.used -= n
            self.cv.notify_all()


MEM_GATE = MemGate(int(os.environ.get("VERIF_MEM_GB", "64")))


def run_harness(h, tier, want_sample=False):
    cfg = harness_cfg.CFG.get(h["name"], {})
    got = MEM_GATE.acquire(cfg.get("mem_gb", 8 if tier == "quick" else 12))
    try:
        return run_harness_admitted(h, tier, want_sample)
    finally:
        MEM_GATE.release(got)


def run_harness_admitted(h, tier, want_sample=False):
    cfg = harness_cfg.CFG.get(h["name"], {})
    t0 = time.time()
    rec = dict(name=h["name"], pretty=h["pretty"], prop=h["prop"], tier=h["tier"], unwind=h["unwind"],
               stubs=h["stubs"], backend="cbmc-6.11/" + cfg.get("sat", "cadical"), failures=[],
               inconclusive=[], sample=None)
    binary, err = prepare(h)
    rec["prep_s"] = round(time.time() - t0, 2)
    if err:
        rec["inconclusive"].append(err)
        return rec
    timeout = cfg.get("timeout_s", 600 if tier == "quick" else 3600)
    if os.environ.get("VERIF_TIMEOUT_CAP"):  # tuning runs only
        timeout = min(timeout, int(os.environ["VERIF_TIMEOUT_CAP"]))
    mem = cfg.get("mem_gb", 8 if tier == "quick" else 12)
    rec["bounds"] = dict(unwind=h["unwind"], unwindset=cfg.get("unwindset", []), timeout_s=timeout, mem_gb=mem)
    t1 = time.time()
    if cfg.get("arith"):
        ok = run_arith(h, cfg, binary, rec, timeout, mem)
    else:
        r = sh(cbmc_cmd(h, cfg, binary), timeout=timeout, mem_gb=mem)
        res, status, msgs = parse_cbmc_json(r.stdout)
        if (res is None or any(p.get("status") == "ERROR" for p in res)) and cfg.get("sat", "cadical") == "cadical":
            # CaDiCaL is the fastest back end on passing harnesses, but CBMC drives it
            # non-incrementally: with many failing properties (one SAT call per counterexample) it
            # can run out of time/memory where MiniSat (CBMC's default, incremental) finishes.
            cfg2 = dict(cfg, sat="minisat2")
            # (a second full-length attempt after a timeout rarely helps on a passing harness:
            # the retry gets at most 15 minutes)
            r2 = sh(cbmc_cmd(h, cfg2, binary), timeout=min(timeout, 900), mem_gb=mem)
            res2, status2, msgs2 = parse_cbmc_json(r2.stdout)
            if res2 is not None and not any(p.get("status") == "ERROR" for p in res2):
                r, res, status, msgs = r2, res2, status2, msgs2
                rec["backend"] = "cbmc-6.11/minisat2 (after cadical gave no verdict)"
        rec["solver_s"] = round(time.time() - t1, 2)
        if res is None:
            why = "timeout after %ds" % timeout if r.stderr == "TIMEOUT" else \
                "cbmc gave no result (exit %s; out of memory under the %d GB cap?) %s" % (
                    r.returncode, mem, " | ".join(msgs[-2:])[-300:])
            rec["inconclusive"].append(why)
            return rec
        steps = [m for m in msgs if "size of program expression" in m]
        rec["symex"] = steps[-1] if steps else None
        vcc = [m for m in msgs if "remaining after simplification" in m]
        rec["vccs"] = vcc[-1] if vcc else None
        cl = classify(h, res)
        rec.update(properties=len(res), decided=cl["decided"], by_class=cl["by_class"],
                   harness_asserts=cl["harness_asserts"], harness_asserts_reached=cl["harness_asserts_reached"],
                   covers_sat=cl["covers_sat"], failures=cl["failures"], inconclusive=cl["inconclusive"])
        rec["functions_encoded"] = functions_encoded(res)
    if want_sample and not rec["failures"] and not rec["inconclusive"] and not cfg.get("arith"):
        rec["sample"] = cover_sample(h, cfg, binary, timeout, mem)
    rec["wall_s"] = round(time.time() - t0, 2)
    return rec


def functions_encoded(res):
    fs = set()
    for p in res:
        loc = p.get("sourceLocation", {})
        f = loc.get("file", "")
        # (paths are relative to the workspace root: "rs-matter/src/...")
        if (f.startswith("rs-matter/src/") or "/rs-matter/src/" in f) and loc.get("function") and "verif_kani_" not in loc["function"]:
            fs.add(loc["function"])
    return sorted(fs)


# --------------------------------------------------------------------------------------------
# traces -> replay vectors
# --------------------------------------------------------------------------------------------
ANY_FN = re.compile(r"verif_support::src::any_(u64|u32|u16|u8|bool)")


def trace_values(trace):
    """Ordered draws of the harness: return values of verif_support::any_* (which wrap kani::any)."""
    vals = []
    for st in trace:
        if st.get("stepType") != "function-return":
            continue
        fn = st.get("function", {})
        name = fn.get("displayName", "") if isinstance(fn, dict) else str(fn)
        if ANY_FN.search(name):
            vals.append(("ret", name))
    return vals


def extract_draws(trace):
    """kani::any() lowers to an assignment of a nondet value inside kani::any_raw_internal::<T>;
    these appear in the trace in draw order."""
    draws = []
    for st in trace:
        if st.get("stepType") != "assignment":
            continue
        loc = st.get("sourceLocation", {})
        fn = loc.get("function", "")
        if "any_raw_internal" not in fn and "any_raw_inner" not in fn:
            continue
        v = st.get("value", {})
        lhs = st.get("lhs", "")
        if st.get("assignmentType") != "variable" and st.get("assignmentType") != "actual-parameter":
            pass
        val = value_to_int(v)
        if val is None:
            continue
        draws.append((lhs, val, fn))
    return draws


def value_to_int(v):
    if "binary" in v:
        try:
            return int(v["binary"], 2)
        except ValueError:
            return None
    d = v.get("data")
    if d in ("TRUE", "true"):
        return 1
    if d in ("FALSE", "false"):
        return 0
    try:
        return int(d)
    except (TypeError, ValueError):
        return None


def get_trace(h, cfg, binary, prop, timeout, mem):
    # no --slice-formula here: slicing drops draws the property does not depend on from the trace,
    # which would shift the replay vector
    full = cbmc_cmd(h, cfg, binary, extra=["--trace", "--property", prop])
    # second attempt WITH slicing if the unsliced formula does not fit (memory / time): the replay
    # vector may then miss draws the property does not depend on - which the native replay step
    # detects (a vector that does not reproduce is reported as inconclusive, never as a violation)
    for cmd in ([c for c in full if c != "--slice-formula"], full):
        r = sh(cmd, timeout=timeout, mem_gb=mem)
        res, status, msgs = parse_cbmc_json(r.stdout)
        for p in res or []:
            if p["property"] == prop and "trace" in p:
                return p["trace"]
    return None


def draws_of(trace):
    """One value per call of kani::any_raw_internal::<T> (= per harness draw), in call order: the
    last assignment to its local `var_0` before the function returns."""
    vals = []
    depth_any = 0
    cur = None
    for st in trace:
        t = st.get("stepType")
        if t == "function-call":
            fn = st.get("function", {})
            name = (fn.get("displayName", "") if isinstance(fn, dict) else str(fn))
            if "any_raw_internal" in name or "any_raw_inner" in name:
                depth_any += 1
                cur = None
        elif t == "function-return":
            fn = st.get("function", {})
            name = (fn.get("displayName", "") if isinstance(fn, dict) else str(fn))
            if ("any_raw_internal" in name or "any_raw_inner" in name) and depth_any > 0:
                depth_any -= 1
                if depth_any == 0:
                    vals.append(cur if cur is not None else 0)
                    cur = None
        elif t == "assignment" and depth_any > 0:
            lhs = st.get("lhs", "")
            if re.search(r"var_0$", lhs):
                v = value_to_int(st.get("value", {}))
                if v is not None:
                    cur = v
    return vals


def cover_sample(h, cfg, binary, timeout, mem):
    """One concrete case the solver walked through: the trace of the harness' last cover."""
    r = sh(cbmc_cmd(h, cfg, binary, extra=["--show-properties"]), timeout=120, mem_gb=mem)
    try:
        js = json.loads(r.stdout)
    except Exception:
        return None
    props = []
    for item in js:
        if "properties" in item:
            props = item["properties"]
    covers = [p for p in props if ".cover." in p["name"] and
              p.get("sourceLocation", {}).get("file", "").startswith(os.path.join(VERIF, "kani"))]
    if not covers:
        return None
    target = covers[-1]["name"]
    tr = get_trace(h, cfg, binary, target, timeout, mem)
    if tr is None:
        return None
    return dict(cover=target, line=covers[-1].get("sourceLocation", {}).get("line"), draws=draws_of(tr))


# --------------------------------------------------------------------------------------------
# SMT route for arithmetic harnesses
# --------------------------------------------------------------------------------------------
SMT_SOLVERS = [
    ("cvc5-bv-as-int", ["cvc5", "--lang", "smt2", "--solve-bv-as-int=sum"]),
    ("cvc5", ["cvc5", "--lang", "smt2"]),
    ("z3-4.8.12", ["/usr/bin/z3"]),
    ("z3-5.1", ["z3-new"]),
]


def smt_export(h, cfg, binary, names, out, timeout, mem):
    extra = ["--smt2", "--outfile", out + ".raw"]
    for n in names:
        extra += ["--property", n]
    cmd = [c for c in cbmc_cmd(h, cfg, binary, extra=extra) if c != "--json-ui"]
    sh(cmd, timeout=timeout, mem_gb=mem)
    if not os.path.exists(out + ".raw"):
        return False
    # keep everything up to (check-sat): the trailing (get-value ..) lines make solvers print
    # "(error" after an unsat answer, which we otherwise treat as inconclusive
    with open(out + ".raw") as fi, open(out, "w") as fo:
        for line in fi:
            fo.write(fix_overflow_mult(line))
            if line.startswith("(check-sat)"):
                break
        fo.write("(exit)\n")
    os.remove(out + ".raw")
    return True


_MUL_PAT = re.compile(r"\(concat \(\(_ extract (\d+) 0\) prod\) ")


def fix_overflow_mult(line):
    """CBMC 6.11's SMT2 back end flattens the {result, overflowed} pair of a checked multiplication
    as (concat result overflow_bit) but reads `result` back as bits [w-1:0] and `overflowed` as bit w,
    i.e. every checked product comes out as 2*product+overflow (found with the MRP back-off harness:
    all of cvc5/z3 4.8/z3 5.1 answered sat with a model that does not satisfy the Rust semantics).
    Re-order the concat to (concat overflow_bit result), which is what the extracts expect. The
    engine's SMT self-test harness (x00_q_smt_selftest) validates the repaired encoding on every run."""
    if "(concat ((_ extract" not in line or " prod) " not in line:
        return line
    out = []
    i = 0
    while True:
        m = _MUL_PAT.search(line, i)
        if not m:
            out.append(line[i:])
            break
        out.append(line[i:m.start()])
        j = m.end()
        # parse the balanced s-expression (the overflow bit) that follows
        if line[j] != "(":
            out.append(line[m.start():j])
            i = j
            continue
        depth = 0
        k = j
        while k < len(line):
            if line[k] == "(":
                depth += 1
            elif line[k] == ")":
                depth -= 1
                if depth == 0:
                    break
            k += 1
        ovf = line[j:k + 1]
        if line[k + 1] != ")":
            out.append(line[m.start():k + 1])
            i = k + 1
            continue
        out.append("(concat %s ((_ extract %s 0) prod))" % (ovf, m.group(1)))
        i = k + 2
    return "".join(out)


def smt_race(f, timeout, mem, want_all=False):
    """Run all solvers on f concurrently. -> (answers dict, verdict) verdict in sat/unsat/None/'disagree'"""
    t1 = time.time()
    procs = [(name, subprocess.Popen(c + [f], stdout=subprocess.PIPE, stderr=subprocess.STDOUT, text=True,
                                     preexec_fn=limit(mem))) for name, c in SMT_SOLVERS]
    answers = {}
    first_definite = None
    deadline = time.time() + timeout
    while time.time() < deadline and len([k for k in answers if not k.endswith("_s")]) < len(procs):
        for name, p in procs:
            if name in answers or p.poll() is None:
                continue
            out = p.stdout.read()
            first = out.strip().splitlines()[0].strip() if out.strip() else ""
            if "(error" in out:
                answers[name] = "error"
            elif first in ("sat", "unsat"):
                answers[name] = first
            else:
                answers[name] = "unknown"
            answers[name + "_s"] = round(time.time() - t1, 2)
            if answers[name] in ("sat", "unsat") and first_definite is None:
                first_definite = time.time()
        if first_definite is not None and not want_all:
            # cross-check: give the others a grace period of max(5 s, the first solver's time)
            grace = max(5.0, first_definite - t1)
            definite = [k for k, v in answers.items() if v in ("sat", "unsat")]
            if len(definite) >= 2 or time.time() > first_definite + grace:
                break
        time.sleep(0.05)
    for name, p in procs:
        if p.poll() is None:
            try:
                os.killpg(p.pid, 9)
            except OSError:
                p.kill()
            answers.setdefault(name, "no-answer")
    definite = set(v for k, v in answers.items() if v in ("sat", "unsat"))
    verdict = None
    if len(definite) == 1:
        verdict = definite.pop()
    elif len(definite) > 1:
        verdict = "disagree"
    return answers, verdict


_SELFTEST = {"done": False, "ok": False, "detail": ""}
_SELFTEST_LOCK = __import__("threading").Lock()
_META = {"meta": None}


def smt_selftest():
    """Validate the SMT-LIB2 route (export + repair + solvers) on a harness with a known answer."""
    with _SELFTEST_LOCK:
        if _SELFTEST["done"]:
            return _SELFTEST["ok"], _SELFTEST["detail"]
        _SELFTEST["done"] = True
        meta = _META["meta"]
        hs = [x for x in (meta or {}).get("proof_harnesses", []) if x["pretty_name"].endswith("x00_q_smt_selftest")]
        if not hs:
            _SELFTEST["detail"] = "self-test harness not found"
            return False, _SELFTEST["detail"]
        x = hs[0]
        h = dict(name="x00_q_smt_selftest", goto=x["goto_file"], mangled=x["mangled_name"], unwind=None)
        binary, err = prepare(h)
        if err:
            _SELFTEST["detail"] = err
            return False, err
        r = sh(cbmc_cmd(h, {}, binary, extra=["--show-properties"]), timeout=120, mem_gb=8)
        props = []
        try:
            for item in json.loads(r.stdout):
                if "properties" in item:
                    props = item["properties"]
        except Exception:
            pass
        want = {"SELFTEST-holds": "unsat", "SELFTEST-fails": "sat"}
        got = {}
        wd = os.path.join(WORK, h["name"])
        for p in props:
            for key, exp in want.items():
                if key in p.get("description", ""):
                    f = os.path.join(wd, key + ".smt2")
                    if smt_export(h, {}, binary, [p["name"]], f, 120, 8):
                        a, v = smt_race(f, 120, 8)
                        got[key] = v
        ok = all(got.get(k) == v for k, v in want.items())
        _SELFTEST["ok"] = ok
        _SELFTEST["detail"] = "smt self-test: %s (expected %s)" % (got, want)
        return ok, _SELFTEST["detail"]


def run_arith(h, cfg, binary, rec, timeout, mem):
    """Harnesses whose assertions depend on 64-bit multiply/divide/remainder kernels that CaDiCaL does
    not finish. Split: (1) the harness' ROLE assertions, the unwinding assertions and the arithmetic
    checks inside the functions named in `arith_focus` are exported as ONE SMT-LIB2 query (negated
    conjunction) and decided by cvc5 / cvc5 bv-as-int / z3 4.8.12 / z3 5.1 in parallel;
    (2) every other check (pointer, bounds, covers, reachability twins) goes to CBMC/CaDiCaL."""
    t1 = time.time()
    ok, detail = smt_selftest()
    rec["smt_selftest"] = detail
    if not ok:
        rec["inconclusive"].append("arith: " + detail)
        return False
    r = sh(cbmc_cmd(h, cfg, binary, extra=["--show-properties"]), timeout=300, mem_gb=mem)
    try:
        js = json.loads(r.stdout)
    except Exception:
        rec["inconclusive"].append("arith: --show-properties failed")
        return False
    props = []
    for item in js:
        if "properties" in item:
            props = item["properties"]
    kani_dir = os.path.join(VERIF, "kani")
    focus = cfg.get("arith_focus", [])
    smt_sel, sat_sel = [], []
    for p in props:
        loc = p.get("sourceLocation", {})
        cls = p["name"].rsplit(".", 2)[-2] if p["name"].count(".") >= 2 else "?"
        desc = p.get("description", "")
        if loc.get("file", "").startswith(kani_dir) and cls == "assertion" and "ROLE:" in desc:
            smt_sel.append(p)
        elif cls == "unwind":
            smt_sel.append(p)
        elif cls in ("assertion", "arithmetic_overflow", "division-by-zero") and any(f in loc.get("function", "") for f in focus):
            smt_sel.append(p)
        else:
            sat_sel.append(p)
    if not smt_sel:
        rec["inconclusive"].append("arith: no properties selected")
        return False
    wd = os.path.join(WORK, h["name"])
    # (2) SAT part
    extra = []
    for p in sat_sel:
        extra += ["--property", p["name"]]
    rs = sh(cbmc_cmd(h, cfg, binary, extra=extra), timeout=timeout, mem_gb=mem)
    res, status, msgs = parse_cbmc_json(rs.stdout)
    if res is None:
        rec["inconclusive"].append("arith: SAT part gave no result (%s)" % ("timeout" if rs.stderr == "TIMEOUT" else rs.returncode))
        return False
    # (1) SMT part
    f = os.path.join(wd, "arith.smt2")
    if not smt_export(h, cfg, binary, [p["name"] for p in smt_sel], f, timeout, mem):
        rec["inconclusive"].append("arith: smt2 export failed")
        return False
    rec["smt2_bytes"] = os.path.getsize(f)
    answers, verdict = smt_race(f, timeout, mem, want_all=cfg.get("arith_all_solvers", False))
    rec["backend"] = "cbmc-6.11/cadical + smt2 export -> " + ", ".join("%s=%s" % (k, v) for k, v in sorted(answers.items()))
    failing = set()
    if verdict == "disagree":
        rec["inconclusive"].append("arith: solvers disagree: %s" % answers)
    elif verdict is None:
        rec["inconclusive"].append("arith: no solver answered within %ds: %s" % (timeout, answers))
    elif verdict == "sat":
        for p in smt_sel:
            f1 = os.path.join(wd, "arith1.smt2")
            if not smt_export(h, cfg, binary, [p["name"]], f1, timeout, mem):
                continue
            a1, v1 = smt_race(f1, timeout, mem)
            if v1 == "sat":
                failing.add(p["name"])
            elif v1 != "unsat":
                rec["inconclusive"].append("arith: %s undecided: %s" % (p["name"], a1))
        if not failing:
            rec["inconclusive"].append("arith: conjunction sat but no single property sat")
    for p in smt_sel:
        res.append(dict(property=p["name"], description=p.get("description", ""), sourceLocation=p.get("sourceLocation", {}),
                        status="FAILURE" if p["name"] in failing else "SUCCESS"))
    rec["solver_s"] = round(time.time() - t1, 2)
    cl = classify(h, res)
    rec.update(properties=len(res), decided=cl["decided"], by_class=cl["by_class"], smt_decided=len(smt_sel),
               harness_asserts=cl["harness_asserts"], harness_asserts_reached=cl["harness_asserts_reached"],
               covers_sat=cl["covers_sat"], failures=cl["failures"])
    rec["inconclusive"] += cl["inconclusive"]
    rec["functions_encoded"] = functions_encoded(res)
    return True


# --------------------------------------------------------------------------------------------
# native replay
# --------------------------------------------------------------------------------------------
def replay_build():
    # release: the repository's profile minus fat LTO / single codegen unit (10+ min link otherwise);
    # what matters for replay is overflow-checks = off, debug-assertions = off, opt-level = z
    env = dict(ENV, RUSTFLAGS="--cfg verif_replay", CARGO_PROFILE_RELEASE_LTO="off",
               CARGO_PROFILE_RELEASE_CODEGEN_UNITS="16")
    with open(os.path.join(BUILD, "lock.replay"), "w") as lk:
        fcntl.flock(lk, fcntl.LOCK_EX)
        out = {}
        for profile in ("dev", "release"):
            cmd = ["cargo", "test", "-p", "rs-matter", "--lib", "--no-default-features", "--features", REPLAY_FEATURES,
                   "--target-dir", REPLAY_TARGET, "--no-run", "--message-format", "json"]
            if profile == "release":
                cmd.append("--release")
            r = subprocess.run(cmd, cwd=REPO, env=env, capture_output=True, text=True)
            exe = None
            for line in r.stdout.splitlines():
                try:
                    m = json.loads(line)
                except Exception:
                    continue
                if m.get("reason") == "compiler-artifact" and m.get("executable") and m.get("target", {}).get("name") == "rs_matter":
                    exe = m["executable"]
            if r.returncode != 0 or not exe:
                open(os.path.join(BUILD, "replay-build-%s.log" % profile), "w").write(r.stdout[-20000:] + r.stderr[-20000:])
            out[profile] = exe
        return out


def replay_native(pretty, values, exes):
    """Run the same harness function, compiled by the repository's rustc, on the solver's values.
    -> {'dev': 'panic'|'pass'|'assume-failed'|'no-build', 'release': ...} + output tail."""
    res = {}
    tail = ""
    test = pretty.split("::", 1)[1] if pretty.startswith("rs_matter::") else pretty
    for profile, exe in exes.items():
        if not exe:
            res[profile] = "no-build"
            continue
        env = dict(ENV, VERIF_REPLAY_VALUES=",".join(str(v) for v in values), RUST_BACKTRACE="0")
        r = subprocess.run([exe, "--exact", test, "--nocapture", "--test-threads", "1"], env=env,
                           capture_output=True, text=True, timeout=300)
        o = r.stdout + r.stderr
        if "VERIF-REPLAY-ASSUME-FAILED" in o:
            res[profile] = "assume-failed"
        elif "running 0 tests" in o or "0 passed; 0 failed" in o and "1 filtered" not in o and "test result: ok. 0 passed" in o:
            res[profile] = "not-found"
        elif r.returncode == 0:
            res[profile] = "pass"
        else:
            res[profile] = "panic"
            m = re.findall(r"panicked at [^\n]*\n[^\n]*", o)
            if m:
                tail = m[-1][:400]
    return res, tail


# --------------------------------------------------------------------------------------------
# findings, evidence, main
# --------------------------------------------------------------------------------------------
def load_findings():
    p = os.path.join(VERIF, "known_findings.json")
    if not os.path.exists(p):
        return []
    return json.load(open(p)).get("findings", [])


def finding_for(findings, prop, harness, role):
    for f in findings:
        if f.get("status") != "known":
            continue
        if f["property"] == prop and f["harness"] == harness and f["role"] == role:
            return f
    return None


def check(prop, tier, seed, jobs, only=None):
    t0 = time.time()
    meta, build_s = build()
    if meta is None:
        write_evidence(prop, tier, seed, [], build_s, time.time() - t0, inconclusive=["encode failed"])
        return 2
    _META["meta"] = meta
    if build_s > 5:
        # the tree changed (it was re-encoded): if a harness fails, its counterexample is replayed
        # against native dev + release builds of this tree - start those builds now, in parallel
        # with the solver runs (4-5 minutes otherwise spent after the verdicts are in)
        import threading
        threading.Thread(target=replay_build, daemon=True).start()
    hs = [h for h in harnesses(meta) if h["prop"] == prop and (h["tier"] == "q" or (tier == "thorough" and h["tier"] == "t"))]
    if only:
        hs = [h for h in hs if any(o in h["name"] for o in only)]
    if not hs:
        log("no harness for %s" % prop)
        write_evidence(prop, tier, seed, [], build_s, time.time() - t0, inconclusive=["no harness"])
        return 2
    # seed: scheduling order only - verdicts are solver verdicts over the whole bound
    import random
    random.Random(seed).shuffle(hs)
    hs.sort(key=lambda h: -harness_cfg.CFG.get(h["name"], {}).get("cost", 10))
    sample_for = set(h["name"] for h in hs) if tier == "thorough" else set(
        h["name"] for h in hs if harness_cfg.CFG.get(h["name"], {}).get("cost", 10) <= 30)
    log("[%s/%s] encode %.1fs, %d harnesses, %d parallel" % (prop, tier, build_s, len(hs), jobs))
    recs = []
    with cf.ThreadPoolExecutor(max_workers=jobs) as ex:
        futs = {ex.submit(run_harness, h, tier, h["name"] in sample_for): h for h in hs}
        for fu in cf.as_completed(futs):
            rec = fu.result()
            recs.append(rec)
            log("  %-44s %s  decided=%s asserts=%s/%s covers=%s fail=%d inconcl=%d  %.1fs" % (
                rec["name"], rec["backend"].split(" ")[0], rec.get("decided"), rec.get("harness_asserts_reached"),
                rec.get("harness_asserts"), rec.get("covers_sat"), len(rec["failures"]), len(rec["inconclusive"]),
                rec.get("wall_s", 0)))
    recs.sort(key=lambda r: r["name"])
    findings = load_findings()
    known_hit, new_fail, inconcl = [], [], []
    for rec in recs:
        for i in rec["inconclusive"]:
            inconcl.append("%s: %s" % (rec["name"], i))
        roles = {}
        for f in rec["failures"]:
            roles.setdefault(f["role"], []).append(f)
        for role, fl in roles.items():
            k = finding_for(findings, prop, rec["name"], role)
            if k:
                known_hit.append((rec, role, k))
            else:
                new_fail.append((rec, role, fl[0]))
    for rec, role, k in known_hit:
        log("KNOWN-FINDING: property=%s %s [%s] %s" % (prop, rec["name"], role, k.get("what", "")))
    violations = []
    if new_fail:
        exes = replay_build()
        hmap = {h["name"]: h for h in hs}
        for rec, role, f in new_fail:
            h = hmap[rec["name"]]
            cfg = harness_cfg.CFG.get(h["name"], {})
            binary, _ = prepare(h)
            if "minisat" in rec.get("backend", ""):
                cfg = dict(cfg, sat="minisat2")
            tr = get_trace(h, cfg, binary, f["property"], 1800, max(20, cfg.get("mem_gb", 8) + 8))
            values = draws_of(tr) if tr else None
            os.makedirs(os.path.join(OUT, "replay", prop), exist_ok=True)
            rp = os.path.join(OUT, "replay", prop, "%s.%s.json" % (rec["name"], hashlib.md5(role.encode()).hexdigest()[:8]))
            art = dict(property=prop, harness=rec["pretty"], role=role, failing_check=f, values=values,
                       how="VERIF_REPLAY_VALUES=<values> cargo test (cfg verif_replay) --exact <harness>; see engine/run.py replay")
            if values is None:
                art["native"] = "no trace"
                json.dump(art, open(rp, "w"), indent=1)
                inconcl.append("%s: counterexample for [%s] but no trace could be produced" % (rec["name"], role))
                continue
            if cfg.get("replay") == "trace-only":
                art["native"] = "not replayable natively (compiler-level stub); CBMC trace values attached"
                json.dump(art, open(rp, "w"), indent=1)
                violations.append((rec, role, rp))
                continue
            nat, tail = replay_native(rec["pretty"], values, exes)
            art["native"] = nat
            art["native_panic"] = tail
            json.dump(art, open(rp, "w"), indent=1)
            if "panic" in nat.values():
                violations.append((rec, role, rp))
            else:
                inconcl.append("%s: counterexample for [%s] did not reproduce natively (%s) - encoding/stub suspect" % (
                    rec["name"], role, nat))
    # translation validation of the encoding itself (thorough tier, or VERIF_VALIDATE=1): the
    # solver-produced input that reaches a harness' last cover is pushed through the SAME harness
    # compiled by the repository's rustc; it must run to completion without tripping an assume.
    validated = 0
    if (tier == "thorough" or os.environ.get("VERIF_VALIDATE") == "1") and not new_fail:
        with_samples = [r for r in recs if r.get("sample") and harness_cfg.CFG.get(r["name"], {}).get("replay") != "trace-only"]
        if with_samples:
            exes = replay_build()
            for r in with_samples:
                nat, tail = replay_native(r["pretty"], r["sample"]["draws"], {"dev": exes.get("dev")})
                r["sample"]["native"] = nat.get("dev")
                if nat.get("dev") == "pass":
                    validated += 1
                elif nat.get("dev") in ("panic", "assume-failed"):
                    inconcl.append("%s: the solver's cover input does not run through natively (%s %s) - encoding/stub suspect" % (
                        r["name"], nat.get("dev"), tail[:120]))
    for rec, role, rp in violations:
        log("VIOLATION property=%s replay=%s" % (prop, rp))
        log("   harness %s, failed: %s" % (rec["name"], role))
    for i in inconcl:
        log("INCONCLUSIVE: " + i)
    write_evidence(prop, tier, seed, recs, build_s, time.time() - t0, inconclusive=inconcl,
                   known=[(r["name"], role) for r, role, _ in known_hit], violations=len(violations), validated=validated)
    if violations:
        return 1
    if inconcl:
        return 2
    log("[%s/%s] held on everything explored: %d harnesses, %d solver-decided checks, %.1fs" % (
        prop, tier, len(recs), sum(r.get("decided", 0) for r in recs), time.time() - t0))
    return 0


def write_evidence(prop, tier, seed, recs, build_s, wall, inconclusive=(), known=(), violations=0, validated=0):
    os.makedirs(os.path.join(OUT, "evidence"), exist_ok=True)
    decided = sum(r.get("decided", 0) or 0 for r in recs)
    reached = sum(r.get("harness_asserts_reached", 0) or 0 for r in recs)
    nontrivial = len(set((r["name"], ) for r in recs if not r["inconclusive"] and (r.get("harness_asserts_reached") or 0) > 0))
    samples = []
    for r in recs:
        if r.get("sample"):
            samples.append(dict(harness=r["name"], kind="solver-produced input reaching the harness' final cover",
                                draws=r["sample"]["draws"][:64], native_run=r["sample"].get("native")))
    if not samples:
        for r in recs[:3]:
            samples.append(dict(harness=r["name"], kind="obligation", unwind=r.get("unwind"),
                                checks_decided=r.get("decided")))
    funcs = sorted(set(f for r in recs for f in (r.get("functions_encoded") or [])))
    ev = dict(
        property_id=prop, tier=tier, seed=seed, level="model_checking",
        coverage=dict(
            evaluations=max(decided, 0),
            distinct_nontrivial=reached,
            rule=("evaluations = verification conditions (assertions, overflow/bounds/pointer checks, unwinding "
                  "assertions) of the real compiled code decided by the solver in this run, each over ALL inputs "
                  "within the harness bound; distinct_nontrivial = harness assertions (property roles) that the "
                  "solver proved reachable (Kani reachability twin = FAILURE) and decided; a harness counts only "
                  "if no unwinding assertion failed and every cover was satisfied"),
            samples=samples,
            harnesses=[dict(name=r["name"], backend=r["backend"], unwind=r.get("unwind"), bounds=r.get("bounds"),
                            properties=r.get("properties"), decided=r.get("decided"), by_class=r.get("by_class"),
                            harness_asserts=r.get("harness_asserts"), harness_asserts_reached=r.get("harness_asserts_reached"),
                            covers_satisfied=r.get("covers_sat"), stubs=r.get("stubs"), symex=r.get("symex"), vccs=r.get("vccs"),
                            prep_s=r.get("prep_s"), solver_s=r.get("solver_s"), wall_s=r.get("wall_s"),
                            failures=[f["role"] for f in r["failures"]], inconclusive=r["inconclusive"]) for r in recs],
            harnesses_nontrivial=nontrivial,
            traces_validated_against_impl=validated,
            functions_encoded=funcs[:400],
            encode_s=round(build_s, 1),
            solver_s=round(sum(r.get("solver_s", 0) or 0 for r in recs), 1),
            known_findings_hit=["%s [%s]" % k for k in known],
            inconclusive=list(inconclusive),
            exhaustive=False,
            bounds_doc=harness_cfg.BOUNDS.get(prop, ""),
        ),
        assumptions=harness_cfg.ASSUMPTIONS.get(prop, []) + harness_cfg.COMMON_ASSUMPTIONS,
        wall_s=round(wall, 1), violations=violations,
    )
    json.dump(ev, open(os.path.join(OUT, "evidence", prop + ".json"), "w"), indent=1)


def main():
    ap = argparse.ArgumentParser()
    sub = ap.add_subparsers(dest="cmd")
    c = sub.add_parser("check")
    c.add_argument("prop")
    c.add_argument("--tier", default=os.environ.get("VERIF_TIER", "quick"))
    c.add_argument("--only", nargs="*")
    sub.add_parser("build")
    sub.add_parser("list")
    hp = sub.add_parser("harness")
    hp.add_argument("names", nargs="+")
    hp.add_argument("--tier", default="thorough")
    hp.add_argument("--nobuild", action="store_true")
    sub.add_parser("replay-build")
    rp = sub.add_parser("replay")
    rp.add_argument("path")
    a = ap.parse_args()
    seed = int(os.environ.get("VERIF_SEED", "0") or 0)
    jobs = int(os.environ.get("VERIF_JOBS", "8"))
    if a.cmd == "check":
        sys.exit(check(a.prop.upper(), a.tier, seed, jobs, a.only))
    if a.cmd == "build":
        meta, s = build()
        log("encode %s in %.1fs" % ("ok" if meta else "FAILED", s))
        sys.exit(0 if meta else 2)
    if a.cmd == "list":
        meta, s = build()
        for h in sorted(harnesses(meta), key=lambda h: h["name"]):
            log("%s %s %-50s unwind=%s" % (h["prop"], h["tier"], h["name"], h["unwind"]))
        return
    if a.cmd == "harness":
        if a.nobuild:
            metas = sorted(find_metas(), key=os.path.getmtime)
            meta = json.load(open(metas[-1]))
        else:
            meta, s = build()
            if meta is None:
                sys.exit(2)
        _META["meta"] = meta
        hs = [h for h in harnesses(meta) if any(n in h["name"] for n in a.names)]
        with cf.ThreadPoolExecutor(max_workers=jobs) as ex:
            futs = [ex.submit(run_harness, h, a.tier, False) for h in hs]
            for fu in cf.as_completed(futs):
                rec = fu.result()
                log(json.dumps({k: rec.get(k) for k in ("name", "backend", "decided", "harness_asserts", "harness_asserts_reached",
                                                       "covers_sat", "prep_s", "solver_s", "wall_s", "symex", "inconclusive")}))
                for f in rec["failures"]:
                    log("   FAIL %s  @%s:%s  (%s)" % (f["role"], (f["file"] or "").split("/")[-1], f["line"], f["property"]))
        return
    if a.cmd == "replay-build":
        log(json.dumps(replay_build()))
        return
    if a.cmd == "replay":
        art = json.load(open(a.path))
        exes = replay_build()
        nat, tail = replay_native(art["harness"], art["values"], exes)
        log(json.dumps(nat), tail)
        sys.exit(1 if "panic" in nat.values() else 0)
    ap.print_help()


if __name__ == "__main__":
    main()
