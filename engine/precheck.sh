#!/bin/sh
# fast compile check of the harness files with the repository's own rustc (cfg verif_replay)
cd /repo && RUSTFLAGS="--cfg verif_replay" CARGO_NET_OFFLINE=true cargo check -p rs-matter --lib --tests --no-default-features --features std,groups,case-resumption,max-sessions-3 --target-dir /verif/.build/replay 2>&1 | grep -E "^(error|warning: unused)" -A12 | head -${1:-80}
