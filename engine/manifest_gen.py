#!/usr/bin/env python3
"""Generates /verif/MANIFEST.json from the table below (kept in one place so that it stays valid)."""
import json, subprocess, os

NOTE = ("Trusted base: rustc MIR -> Kani 0.68 goto translation, CBMC 6.11 symbolic execution + bit-blasting, CaDiCaL "
        "(cvc5 1.0 / z3 for the SMT-exported arithmetic), the reference models written in the harness files, the stubs listed "
        "in DESIGN.md 2.3. Bounded: see evidence.coverage.bounds_doc; unwinding assertions are on, a failing one is exit 2.")

K = "Kani 0.68 -> CBMC 6.11 bounded model checking of the real compiled functions (CaDiCaL; MiniSat fallback)"
CLAIMS = {
    # id: (technique, level text, design ref)
    "C02": (K + "; one-step state-machine harnesses with a symbolic clock stub",
            "NARROW: solver-decided for the commissioning-window state machine only (Pase::open_basic_comm_window / record_pake_failure / check_comm_window_timeout / close_comm_window): open succeeds iff closed and timeout in [180,900] s and salt length in [16,32]; every failure counted once, window revoked exactly at the 20th (also 20 in a row from a fresh window); expiry iff now > expiry; every open/close path calls the mDNS notifier; thorough: every 4-operation sequence (open / failures / poll after a time step / close) stays in step with a three-variable reference model. SPAKE2+ math, the async responder/initiator and session creation are outside.", "4/C02"),
    "C03": (K + "; recording AEAD oracle (what exactly is handed to the primitive), identity cipher for the round trip",
            "Solver-decided over every datagram <= 40 bytes: decode consults the AEAD exactly once with the session key, nonce = security flags | counter | the SESSION's peer node id, AAD = every byte preceding the ciphertext, ciphertext = all remaining bytes; a rejecting oracle yields Err; encode does the same with the local node id and decode(encode(h, payload<=4 B)) returns the same header fields and payload (<= 16 B thorough); the receive-session selection predicate (session id, secured/unsecured kind, peer address, source / destination node id, never a reserved session) == reference. 'No state change on reject' is claimed only up to Session::post_recv (C04 session harness); TransportRunner::decode_packet and the group key trial loop are outside.", "4/C03"),
    "C04": (K + "; inductive step over ALL window states + k-step histories from the real initial state",
            "FULL for the window logic: one receive from EVERY (max, bitmap) state against a window model written from the property text, for secure unicast, unsecured and group (roll-over) modes - exhaustive in 2^112 inputs; histories of 3 (quick) / 4 (thorough) receives from the state every Session starts in; Session::post_recv surfaces duplicates as Err(Duplicate) with exchange table, window and send counter untouched; group sender table with 2 entries (quick) and the real 16 with LRU eviction (thorough). The async transport that calls it is outside.", "4/C04"),
    "C05": (K + "; differential harness: AclEntry::allow vs an independently written reference of the Access Control Privilege Granting algorithm",
            "Solver-decided: entry decision == reference for every entry (privilege x auth mode x subjects null/empty/1/2 x targets null/empty/1/2 with endpoint/cluster/device-type x auxiliary flag), accessor (mode incl. none, fabric incl. 0, node id, 2 tags), path, operation and every 16-bit access word; tag matching exhaustive; privilege lattice exhaustive over all 2^16 access words; fabric-level dispatch (Fabrics::allow over 2 fabrics x <= 2 entries with the entry decision replaced by an oracle): PASE implicit grant, accessor without an existing fabric denied, only entries of the accessor's own fabric consulted. The groupcast auxiliary grant and group endpoint membership are outside.", "4/C05"),
    "C06": (K + "; compiler-level stub of AccessReq::allow by a recording permission oracle",
            "NARROW: solver-decided for the synchronous kernels only: the three cluster gates (attribute / command / event) let an operation through only after exactly one positive consultation of the permission oracle with the element's DECLARED access word, the right operation and the concrete path; unknown leaves, unsupported operations, untimed access to timed-only elements and fabric-scoped commands without fabric are refused with the prescribed status; PathExpander on a 1x1x2 node: a concrete read path yields the leaf iff it exists and is permitted, else the status of the first missing level. The one-entry authorisation cache as an inductive step from an arbitrary cache content (reuse only for the identical triple, a denial is never remembered). Wildcard expansion and multi-path lists did not finish within the caps and are NOT claimed (DESIGN 7.7). IM handlers, response encoding, timed-window expiry and composition changes between chunks (async) are outside.", "4/C06"),
    "C07": (K + "; state harnesses over the real Sessions / Fabrics / FailSafe objects (table capacity 3)",
            "NARROW: solver-decided: after Sessions::remove_for_fabric(F) no session carries F except the answering one (expired) and sessions of other fabrics are untouched (2 arbitrary sessions); after FailSafe::expire of a context that added fabric F the fabric is gone, the fail-safe idle, and neither a CASE nor a PASE session on F survives (concrete 2-session scene, both 'answering session' variants); an expired session opens no new exchange. Subscriptions, group keys, resumption records (purged in im.rs) and the handler sequencing are outside.", "4/C07"),
    "C08": (K + "; truth-table harness of the command gate against a reference predicate; one-step transition harnesses",
            "NARROW: solver-decided from EVERY fail-safe context (idle/armed x all flag sets x fabric x timeout) and every session mode: the gate for AddNOC / UpdateNOC / AddTrustedRootCertificate / CSRRequest == reference predicate (armed, not plaintext, UpdateNOC => CASE, same fabric, required flags present, excluded absent) with the documented error codes; CSRRequest through the real entry points sets exactly its own flag once and a refused command leaves the context unchanged; arm / re-arm / ArmFailSafe(0); timer expiry fires iff now >= armed_at + timeout. Atomic persistence, restart and KV failures (async handlers) are outside.", "4/C08"),
    "C09": (K + "; back-off arithmetic exported as SMT-LIB2 (repaired export, self-tested) and decided by cvc5 --solve-bv-as-int / cvc5 / z3",
            "NARROW: solver-decided one-step harnesses from every reliability state: retransmission budget (exactly 5 transmissions, then TxTimeout, never Ok, entry cleared), ack matching (matching ack clears, foreign ack => Duplicate and no change), an ack is owed only for a received reliable message and carries its counter, piggy-backing. Back-off per transmission count n=0..5 for every base interval < 2^22 ms: never above the real-valued formula, at most 14 ms below, jitter in {0,1,128,255} monotone and <= 25 %. Two-ends composition: a reliable message is acknowledged by the peer's next message with exactly its counter and only that ends the retransmissions. The receive-timeout ladder sum (no back end finished), the async sender loop, timers and the re-ack of duplicates are outside.", "4/C09"),
    "C10": (K + "; state harness over a real Session with <= 3 exchange slots",
            "NARROW: solver-decided: a message matches exactly the first live exchange with the same id and the opposite role; no match => a new exchange iff initiator flag, not standalone-ack/status, session not expired and a free slot, with NoExchange / NoSession / NoSpaceExchanges otherwise; the new exchange is a responder in AcceptPending with the message's id; a dropped exchange is freed iff nothing is pending; request / response over two sessions (same exchange id, initiator flag cleared, delivered to the requesting exchange); thorough: all 5 exchange slots arbitrary. 'Never wedges' (liveness over async schedules), accept deadline and orphan sweep are outside.", "4/C10"),
    "C12": (K + "; inductive step + crash/restart schedules; the 64-bit %10000 kernel via SMT-LIB2 (cvc5 / z3)",
            "FULL for the three counters: check-in counter, global group data counter and event number: one operation from every state satisfying the stated representation invariant hands out a value strictly before the durable boundary and a restart resumes past it; 5-step schedules with symbolic crash points (before/after the store) from any start incl. the ring wrap yield pairwise distinct values. The caller-side 'store before send' in async code (Exchange::initiate_group) is outside.", "4/C12"),
    "C13": (K + "; ghost-change invariant harnesses over the real ChangedAttrs / SubscriptionsInner (promotion stubbed to unreachable below capacity)",
            "Solver-decided: record / record_wildcard keep every pending change pending (coalescing keeps the max id) on tables of <= 3 arbitrary entries with the overflow path proved unreachable; purge_up_to exact; SubscriptionsInner::purge_reported_changes keeps whatever a live subscription - in the table or in flight (priming / reporting) - has not seen; coarsen/covers soundness; report timing (allowed / due / expired / retry back-off) against closed formulas. The last-ditch overflow path on a concrete full table (the new change concrete, the older change and the subscriber's watermark symbolic). Promotion over symbolic table contents did not finish within the caps and is NOT claimed (DESIGN 7.7). Reporter loop and priming path (async) are outside.", "4/C13"),
    "C15": (K + "; state harnesses over real Session / Sessions",
            "Solver-decided: a non-retransmission takes the session counter and leaves counter+1 (assumption: < 2^32 messages per session); a retransmission re-uses counter, plain and exchange header for any single interleaved receive that does not acknowledge it; locally chosen session ids are non-zero and unique among 3 live sessions; exchange ids unique among live initiator exchanges. KNOWN FINDING (not repaired): the piggy-backed ack of a retransmission changes when a reliable message was received in between. Payload builders and randomised signatures (async) are outside.", "4/C15"),
    "C16": (K + "; decoder-safety harnesses on arbitrary bytes, differential harness vs a reference integer decoder, writer->reader round trips per scalar kind / tag form",
            "Solver-decided within stated byte bounds: header length arithmetic over ALL 10- and 18-byte prefixes (every 64-bit length field); every scalar accessor on every byte string <= 10 returns Ok/Err without panic/overflow/out-of-range and integer decode + element length == reference decoder; container_len / raw_value stay within the input for every byte string <= 5 (7 thorough); read(write(v)) == v for each integer width, bool, null under a context tag and for each of the 8 tag forms, strings of 0..4 bytes with each length-field width; string decode == reference decoder on every byte string <= 12 (all four length widths); f32 / f64 bit-exact. Thorough tier adds the element iterator on every byte string <= 4 and container_len <= 7. TLV iterator / find_ctx / re-encode identity on arbitrary bytes, multi-member containers and derived structs did not finish within the caps and are NOT claimed (DESIGN 7.7).", "4/C16"),
    "C17": (K + "; encode->decode and decode->encode round-trip + decoder-safety harnesses per format",
            "PARTIAL LIST: PlainHdr (26-byte prefixes, every field combination), ProtoHdr (plaintext path), status report, BTP segment header + handshake bodies, Check-In framing (oracle AEAD/HMAC, app data <= 4 B, arbitrary <= 40 B input), base38 chunk kernels (every 1-3 byte chunk, every <= 5 byte hostile chunk) and the public decoder on ASCII strings of 2-3 (4 thorough) characters, the 11-digit manual pairing code parser == an independent Verhoeff / digit-group reference on EVERY 11-character ASCII string, QR bit reader == reference, the fixed 88-bit QR part for all field values, the QR payload validity predicate over all vendor / product / passcode values, BDX Init / Accept / Block / Query messages (write->parse and parse->write, <= 24 bytes), BLE commissionable and recovery advertisements (emit->parse, parse == reference walker on every <= 16 bytes), ParseBuf / WriteBuf primitives. The 21-digit pairing code, QR text end to end (base38 + TLV tail), manual code generation (core::fmt), mDNS records, Matter<->X.509, CD are outside.", "4/C17"),
    "C18": (K + "; hostile-segment step from any window state with the ring buffer abstracted by a verified-separately FIFO stub",
            "Solver-decided: any <= 8 byte data segment against an established session in ANY window state satisfying the representation invariant: Ok/Err, never panic/overflow, invariant preserved, wrong sequence / window overrun / ack of a segment not in flight are errors; hostile handshake requests <= 10 bytes (negotiated MTU in range, windows opened); sender step (segment only when the peer window allows, consecutive sequence numbers, pending ack piggy-backed, payload is the message slice, flags) for segment sizes 20-21 and messages <= 24 B; is_ack_due predicate; real RingBuf<8> == FIFO. Sender->receiver compositions: the whole handshake between two sessions (both ends agree, first data segment accepted in each direction) and the first segment of any message <= 24 B accepted by the peer (quick); whole two-segment transfer with acknowledgement leg and sequence wrap (thorough). The production RingBuf<3166> and the async Btp wrapper are outside.", "4/C18"),
    "C19": (K + "; compiler-level stubs of the CertRef accessors (symbolic certificate attributes), recording signature oracle",
            "NARROW: solver-decided: CertVerifier (add_cert / verify_usage / finalise) accepts the chains NOC->RCAC and NOC->ICAC->RCAC iff the reference predicate holds (every link an authority link with a good signature, validity vs reliable / last-known-good time, leaf non-CA with digitalSignature and server+client auth, authorities CA with keyCertSign within path length, no unknown critical extension, root verifies against itself), each rule also as its own role; plus the extended-key-usage accessor on real certificate TLV (list of 1-3 purposes, any values) == 'every required purpose is listed'. Extraction of the other attributes from TLV, DER re-encoding, the real signature and the AddNOC/CASE wrappers are outside.", "4/C19"),
    "C20": (K + "; state harnesses over the real Sessions table (capacity 3)",
            "NARROW: solver-decided: get_session_for_eviction never picks a reserved session or one with a live exchange, prefers expired ones, and offers an idle session whenever one exists (clock ties included); PASE purge leaves only the answering session, expired; add fails iff the table is full and remove frees the slot (thorough). Busy answer, rendezvous guards, ReservedSession drop (needs Matter) and the async reserve->evict->retry loop are outside.", "4/C20"),
}

NOT_APPLICABLE = {
    "C01": "CASE handshake outcome under message mutation/loss schedules lives in async responder/initiator code over populated fabric tables; Kani has no executor model and a populated fabric table exhausts CBMC (34 GB measured). Solver-sized fragments are checked under C19.",
    "C11": "Crash points sit inside multi-write operations sequenced by async IM handlers over 1-2 KB TLV blobs whose decode alone does not finish in CBMC; solver-sized fragments are decided under C12 and C16.",
    "C14": "Chunking interleaves encoding with exchange.send().await and attribute handlers; no synchronous kernel carries the property and a message-sized symbolic WriteBuf is out of CBMC's reach.",
}

PENDING = {}

ALL = ["C%02d" % i for i in range(1, 21)]


def main():
    hook_commits = subprocess.run(["git", "-C", "/repo", "log", "--format=%H %s"], capture_output=True, text=True).stdout.splitlines()
    hooks = [l.split()[0] for l in hook_commits if "verif hook" in l]
    checks = []
    for pid in ALL:
        if pid not in CLAIMS:
            continue
        tech, text, ref = CLAIMS[pid]
        checks.append(dict(
            property_id=pid,
            quick_cmd="./check %s quick" % pid,
            thorough_cmd="./check %s thorough" % pid,
            evidence_file="/verif/evidence/%s.json" % pid,
            replay_cmd_template="python3 engine/run.py replay {path}",
            engine="kani-cbmc-smt",
            level_claimed=dict(category="model_checking", text=text, design_ref="DESIGN.md section " + ref),
            level_note=NOTE,
            technique=tech,
        ))
    na = []
    for pid in ALL:
        if pid in CLAIMS:
            continue
        reason = NOT_APPLICABLE.get(pid) or PENDING.get(pid) or "check not built yet in this round (solver harnesses planned in DESIGN.md section 4); not claimed until its quick tier runs clean"
        na.append(dict(property_id=pid, reason=reason))
    m = dict(
        version=1,
        setup_cmd="./setup.sh",
        hooks=dict(
            guard="cfg(kani) / --cfg verif_replay",
            enable="Kani sets cfg(kani) itself (cargo kani -p rs-matter --only-codegen); the native counterexample replay builds with RUSTFLAGS='--cfg verif_replay' cargo test -p rs-matter --lib. The hooks are `#[cfg(any(kani, verif_replay))] #[path=\"/verif/kani/<m>.rs\"] mod ..;` lines appended to the anchored source files plus one [lints.rust] check-cfg entry in rs-matter/Cargo.toml.",
            baseline_off_cmd="cd /repo && cargo test --workspace --no-fail-fast --offline",
            source_commits=hooks,
            add_only=True,
        ),
        engines=[dict(name="kani-cbmc-smt", path="/verif/engine/run.py", serves_properties=sorted(CLAIMS),
                      kind_free_text="Kani 0.68 compiles /repo's working tree to goto programs (one per proof harness in /verif/kani); own runner drives goto-cc/goto-instrument/CBMC 6.11 (CaDiCaL) per harness in parallel, exports arithmetic-heavy obligations as SMT-LIB2 to cvc5/z3, replays counterexamples natively (cfg verif_replay).")],
        checks=checks,
        notes="Exit codes: 0 held within the stated bounds; 1 VIOLATION (counterexample replayed natively, not in known_findings.json); 2 inconclusive (timeout, memory, unwinding bound, vacuity, solver disagreement, non-reproducing counterexample, encode failure).",
        not_applicable=na,
    )
    json.dump(m, open("/verif/MANIFEST.json", "w"), indent=1)
    print("MANIFEST.json: %d checks, %d not_applicable" % (len(checks), len(na)))


if __name__ == "__main__":
    main()
