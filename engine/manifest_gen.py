#!/usr/bin/env python3
"""Generates /verif/MANIFEST.json from the table below (kept in one place so that it stays valid)."""
import json, subprocess, os

NOTE = ("Trusted base: rustc MIR -> Kani 0.68 goto translation, CBMC 6.11 symbolic execution + bit-blasting, CaDiCaL "
        "(cvc5 1.0 / z3 for the SMT-exported arithmetic), the reference models written in the harness files, the stubs listed "
        "in DESIGN.md 2.3. Bounded: see evidence.coverage.bounds_doc; unwinding assertions are on, a failing one is exit 2.")

CLAIMS = {
    # id: (technique, level text, design ref)
    "C04": ("Kani->CBMC bounded model checking of the real RxCtrState/GroupCtrStore code (inductive step over all window states + k-step histories), CaDiCaL",
            "Solver-decided over the compiled real code: one receive step from EVERY (max, bitmap) window state against a window model written from the property text (exhaustive in 2^112 inputs), histories of 3-4 receives from the real initial state, and the group sender table (2 entries quick, the real 16 with LRU eviction thorough). Full claim for the window logic; the async transport that calls it is outside.", "4/C04"),
    "C12": ("Kani->CBMC inductive step + crash/restart schedules for the three durable counters; 64-bit %10000 kernel exported to SMT-LIB2 and decided by cvc5/z3",
            "Solver-decided over the compiled real code: for the check-in counter, the global group data counter and the event number, one operation from every state satisfying the stated representation invariant keeps every handed-out value strictly before the durable boundary and a restart resumes past it; plus 4-5 step schedules with symbolic crash points from any start incl. the wrap point. The caller-side 'store before send' in async code is outside.", "4/C12"),
}

NOT_APPLICABLE = {
    "C01": "CASE handshake outcome under message mutation/loss schedules lives in async responder/initiator code over populated fabric tables; Kani has no executor model and a populated fabric table exhausts CBMC (34 GB measured). Solver-sized fragments are checked under C19.",
    "C11": "Crash points sit inside multi-write operations sequenced by async IM handlers over 1-2 KB TLV blobs whose decode alone does not finish in CBMC; solver-sized fragments are decided under C12 and C16.",
    "C14": "Chunking interleaves encoding with exchange.send().await and attribute handlers; no synchronous kernel carries the property and a message-sized symbolic WriteBuf is out of CBMC's reach.",
}

PENDING = {}

ALL = ["C%02d" % i for i in range(1, 21)]


def main():
    hook_commits = subprocess.run(["git", "-C", "/repo", "log", "--format=%H %s"], capture_output=True, text=True).stdout.splitlines()
    hooks = [l.split()[0] for l in hook_commits if "verif hook" in l]
    checks = []
    for pid in ALL:
        if pid not in CLAIMS:
            continue
        tech, text, ref = CLAIMS[pid]
        checks.append(dict(
            property_id=pid,
            quick_cmd="./check %s quick" % pid,
            thorough_cmd="./check %s thorough" % pid,
            evidence_file="/verif/evidence/%s.json" % pid,
            replay_cmd_template="python3 engine/run.py replay {path}",
            engine="kani-cbmc-smt",
            level_claimed=dict(category="model_checking", text=text, design_ref="DESIGN.md section " + ref),
            level_note=NOTE,
            technique=tech,
        ))
    na = []
    for pid in ALL:
        if pid in CLAIMS:
            continue
        reason = NOT_APPLICABLE.get(pid) or PENDING.get(pid) or "check not built yet in this round (solver harnesses planned in DESIGN.md section 4); not claimed until its quick tier runs clean"
        na.append(dict(property_id=pid, reason=reason))
    m = dict(
        version=1,
        setup_cmd="./setup.sh",
        hooks=dict(
            guard="cfg(kani) / --cfg verif_replay",
            enable="Kani sets cfg(kani) itself (cargo kani -p rs-matter --only-codegen); the native counterexample replay builds with RUSTFLAGS='--cfg verif_replay' cargo test -p rs-matter --lib. The hooks are `#[cfg(any(kani, verif_replay))] #[path=\"/verif/kani/<m>.rs\"] mod ..;` lines appended to the anchored source files plus one [lints.rust] check-cfg entry in rs-matter/Cargo.toml.",
            baseline_off_cmd="cd /repo && cargo test --workspace --no-fail-fast --offline",
            source_commits=hooks,
            add_only=True,
        ),
        engines=[dict(name="kani-cbmc-smt", path="/verif/engine/run.py", serves_properties=sorted(CLAIMS),
                      kind_free_text="Kani 0.68 compiles /repo's working tree to goto programs (one per proof harness in /verif/kani); own runner drives goto-cc/goto-instrument/CBMC 6.11 (CaDiCaL) per harness in parallel, exports arithmetic-heavy obligations as SMT-LIB2 to cvc5/z3, replays counterexamples natively (cfg verif_replay).")],
        checks=checks,
        notes="Exit codes: 0 held within the stated bounds; 1 VIOLATION (counterexample replayed natively, not in known_findings.json); 2 inconclusive (timeout, memory, unwinding bound, vacuity, solver disagreement, non-reproducing counterexample, encode failure).",
        not_applicable=na,
    )
    json.dump(m, open("/verif/MANIFEST.json", "w"), indent=1)
    print("MANIFEST.json: %d checks, %d not_applicable" % (len(checks), len(na)))


if __name__ == "__main__":
    main()
