#!/bin/sh
# usage: seed_test.sh <seeded dir name> [tier]   - apply a seeded change to /repo, run the check of
# the property it breaks, undo the change. Prints the verdict; appends to seeded/<name>/detected.log
N=$1; TIER=${2:-quick}
D=/verif/seeded/$N
P=$(python3 -c "import json;print(json.load(open('$D/meta.json'))['property'])")
cd /repo || exit 2
git diff --quiet || { echo "/repo is dirty"; exit 2; }
git apply $D/patch.diff || { echo "patch does not apply"; exit 2; }
cd /verif
# the seeded run must not leave its evidence / replay files behind as if they described /repo
mkdir -p .build/seed_keep; cp -f evidence/$P.json .build/seed_keep/$P.json 2>/dev/null
ls replay/$P 2>/dev/null | sort > .build/seed_keep/$P.replays.before
S=$(date +%s)
./check $P $TIER > /verif/.build/seed_$N.$TIER.log 2>&1
RC=$?
E=$(date +%s)
git -C /repo checkout -- .
cp -f .build/seed_keep/$P.json evidence/$P.json 2>/dev/null
mkdir -p $D/caught
for f in $(ls replay/$P 2>/dev/null | sort | comm -13 .build/seed_keep/$P.replays.before -); do mv replay/$P/$f $D/caught/$f; done
rmdir replay/$P 2>/dev/null
V=$(grep -c '^VIOLATION' /verif/.build/seed_$N.$TIER.log)
echo "$(date -u +%FT%TZ) $N check=$P tier=$TIER exit=$RC violations=$V wall=$((E-S))s" | tee -a $D/detected.log
grep -A1 '^VIOLATION' /verif/.build/seed_$N.$TIER.log | grep 'failed:' | sed 's/^ */   /' | sort -u | tee -a $D/detected.log
grep '^INCONCLUSIVE' /verif/.build/seed_$N.$TIER.log | cut -c1-200 | head -3
