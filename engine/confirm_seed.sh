#!/bin/sh
# usage: confirm_seed.sh <id e.g. c04> <hook file relative to worktree> <features or ""> 
# Confirms a seeded change in its scratch worktree /tmp/wt_<id> (bug applied there):
#   1. existing lib tests pass WITH the change   2. demo fails WITH it   3. demo passes WITHOUT it
ID=$1; HOOK=$2; FEAT=$3
P=${WT_PREFIX:-wt}; W=/tmp/${P}_$ID; O=/tmp/${P}_${ID}_out; T=/tmp/${P}_${ID}_target
cd $W || exit 2
export CARGO_NET_OFFLINE=true
F=""; [ -n "$FEAT" ] && F="--features $FEAT"
git checkout -q -- . && git apply $O/patch.diff || { echo "patch does not apply"; exit 2; }
echo "== 1. suite with the change"; cargo test -p rs-matter --lib --offline $F --target-dir $T 2>&1 | grep -E "^test result|FAILED|failed" | head -5
printf '\n#[cfg(test)]\n#[path = "%s/demo.rs"]\nmod seeded_demo;\n' $O >> $HOOK
echo "== 2. demo with the change (expect FAILED)"; cargo test -p rs-matter --lib --offline $F --target-dir $T seeded_demo 2>&1 | grep -E "^test result|panicked" | head -6
git apply -R $O/patch.diff
echo "== 3. demo without the change (expect ok)"; cargo test -p rs-matter --lib --offline $F --target-dir $T seeded_demo 2>&1 | grep -E "^test result|panicked" | head -4
git checkout -q -- .
