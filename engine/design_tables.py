#!/usr/bin/env python3
"""Regenerates the generated parts of DESIGN.md (between the GENERATED markers):
   7.4 detection matrix (from seeded/*/meta.json + detected.log) and
   7.5 per-property harness inventory (from the harness list of the last encode + harness_cfg).
usage: python3 engine/design_tables.py [--write]"""
import os, re, subprocess, sys
sys.path.insert(0, os.path.dirname(os.path.abspath(__file__)))
import harness_cfg

V = "/verif"
matrix = subprocess.run([sys.executable, os.path.join(V, "engine/seed_matrix.py")], capture_output=True, text=True).stdout
lst = subprocess.run([sys.executable, os.path.join(V, "engine/run.py"), "list"], capture_output=True, text=True).stdout
per = {}
for line in lst.splitlines():
    m = re.match(r"(C\d\d) ([qt]) (\S+)\s+unwind=(\S+)", line)
    if m:
        per.setdefault(m.group(1), {"q": [], "t": []})[m.group(2)].append(m.group(3))

inv = ["| id | quick tier (every change) | thorough tier adds | bounds (from engine/harness_cfg.py, copied into the evidence) |", "|---|---|---|---|"]
for p in sorted(per):
    strip = lambda n: re.sub(r"^c\d\d_[qt]_", "", n)
    q = ", ".join(strip(n) for n in per[p]["q"])
    t = ", ".join(strip(n) for n in per[p]["t"]) or "-"
    inv.append("| %s | %d: %s | %d: %s | %s |" % (p, len(per[p]["q"]), q, len(per[p]["t"]), t, harness_cfg.BOUNDS.get(p, "")))
inventory = "\n".join(inv)

if "--write" in sys.argv:
    path = os.path.join(V, "DESIGN.md")
    s = open(path).read()
    for tag, body in (("MATRIX", matrix), ("INVENTORY", inventory)):
        a, b = "<!-- GENERATED:%s:BEGIN -->" % tag, "<!-- GENERATED:%s:END -->" % tag
        if a in s and b in s:
            s = s[: s.index(a) + len(a)] + "\n" + body.strip() + "\n" + s[s.index(b):]
    open(path, "w").write(s)
else:
    print(matrix)
    print(inventory)
