# Source file (relative to /repo/rs-matter/src) -> harness file name under /verif/kani (without .rs).
# One mount per anchored source file; the mounted module is a child of the anchored module and
# therefore sees its private items (needed to build arbitrary pre-states).
MOUNTS = [
    ("lib.rs", "support", "verif_support"),
    ("acl.rs", "acl", None),
    ("cert.rs", "cert", None),
    ("fabric.rs", "fabric", None),
    ("failsafe.rs", "failsafe", None),
    ("group_keys.rs", "group_keys", None),
    ("bdx.rs", "bdx", None),
    ("sc.rs", "sc", None),
    ("sc/checkin.rs", "checkin", None),
    ("sc/pase.rs", "pase", None),
    ("sc/case/casep.rs", "casep", None),
    ("sc/case/resumption.rs", "resumption", None),
    ("dm/types/cluster.rs", "cluster", None),
    ("dm/types/privilege.rs", "privilege", None),
    ("im.rs", "im", None),
    ("im/events.rs", "events", None),
    ("im/expand.rs", "expand", None),
    ("im/subscriptions.rs", "subscriptions", None),
    ("pairing/qr.rs", "qr", None),
    ("pairing/code.rs", "code", None),
    ("tlv/read.rs", "tlv_read", None),
    ("tlv/write.rs", "tlv_write", None),
    ("tlv/toiter.rs", "tlv_toiter", None),
    ("transport.rs", "transport", None),
    ("transport/dedup.rs", "dedup", None),
    ("transport/mrp.rs", "mrp", None),
    ("transport/exchange.rs", "exchange", None),
    ("transport/packet.rs", "packet", None),
    ("transport/plain_hdr.rs", "plain_hdr", None),
    ("transport/proto_hdr.rs", "proto_hdr", None),
    ("transport/session.rs", "session", None),
    ("transport/network/btp/session.rs", "btp_session", None),
    ("transport/network/btp/session/packet.rs", "btp_packet", None),
    ("transport/network/btp/gatt.rs", "btp_gatt", None),
    ("utils/codec/base38.rs", "base38", None),
    ("utils/storage/ringbuf.rs", "ringbuf", None),
    ("utils/storage/parsebuf.rs", "parsebuf", None),
    ("utils/storage/writebuf.rs", "writebuf", None),
    ("utils/epoch.rs", "epoch", None),
]

def modname(h, explicit):
    return explicit or ("verif_kani_" + h)

def mount_text(h, explicit):
    return ('\n#[cfg(any(kani, verif_replay))]\n#[path = "/verif/kani/%s.rs"]\npub(crate) mod %s;\n'
            % (h, modname(h, explicit)))

if __name__ == "__main__":
    import sys, os
    root = sys.argv[1] if len(sys.argv) > 1 else "/repo"
    for src, h, explicit in MOUNTS:
        p = os.path.join(root, "rs-matter/src", src)
        s = open(p).read()
        t = mount_text(h, explicit)
        if t.strip() in s:
            continue
        if not s.endswith("\n"):
            s += "\n"
        open(p, "w").write(s + t)
        hp = "/verif/kani/%s.rs" % h
        if not os.path.exists(hp):
            open(hp, "w").write("//! Solver harnesses mounted into rs-matter/src/%s\n#![allow(unused_imports, dead_code)]\nuse super::*;\n" % src)
    print("ok")
