#!/usr/bin/env python3
"""Prints the markdown detection matrix of DESIGN.md 7.4 from seeded/*/meta.json + detected.log."""
import glob, json, os, re

rows = []
for d in sorted(glob.glob("/verif/seeded/*")):
    name = os.path.basename(d)
    meta = json.load(open(os.path.join(d, "meta.json")))
    log = os.path.join(d, "detected.log")
    runs = []
    if os.path.exists(log):
        cur = None
        for line in open(log):
            m = re.match(r"(\S+) (\S+) check=(\S+) tier=(\S+) exit=(\d+) violations=(\d+) wall=(\d+)s", line)
            if m:
                cur = dict(tier=m.group(4), exit=int(m.group(5)), violations=int(m.group(6)), wall=int(m.group(7)), roles=[])
                runs.append(cur)
            elif cur is not None and "failed:" in line:
                h = re.search(r"harness (\S+), failed: (.*)", line)
                if h:
                    cur["roles"].append((h.group(1).rstrip(","), h.group(2).strip()))
    def cell(r):
        if r["exit"] == 1 and r["violations"] > 0:
            hs = sorted({h for h, _ in r["roles"]})
            roles = sorted({ro for _, ro in r["roles"]})
            return "**caught** (%d s): %s - %s" % (r["wall"], ", ".join("`%s`" % h for h in hs), "; ".join(roles)[:260])
        if r["exit"] == 0:
            return "missed (%d s)" % r["wall"]
        return "exit %d, %d violations (%d s)" % (r["exit"], r["violations"], r["wall"])
    cells = []
    for tier in ("quick", "thorough"):
        rs = [r for r in runs if r["tier"] == tier]
        # every run is shown, oldest first: a "missed -> caught" pair documents a strengthened check
        cells.append(" -> ".join(cell(r) for r in rs) if rs else "not run")
    rows.append((name, meta["property"], meta["breaks"], cells))

print("| seeded change | what it breaks | quick | thorough |")
print("|---|---|---|---|")
for name, prop, what, cells in rows:
    print("| `%s` | %s | %s | %s |" % (name, what.replace("|", "/")[:300], cells[0], cells[1]))
