"""Per-harness options and per-property documentation strings (bounds / assumptions) that are
copied into the evidence files. Keys of CFG are harness function names.

 cost        rough wall seconds on this machine (scheduling + which harnesses get a cover sample in quick)
 timeout_s   wall cap for the solver call      mem_gb  address-space cap
 unwindset   extra per-loop bounds for CBMC    arith   decide via SMT-LIB2 export (cvc5 / z3)
 replay      'trace-only' for harnesses that rely on compiler-level stubs
"""
CFG = {
    "c16_t_iter_4": dict(cost=900, mem_gb=24, timeout_s=3000),
    "c16_t_iter_6": dict(cost=2000, mem_gb=30, timeout_s=5400),
    "c16_t_find_ctx_4": dict(cost=1500, mem_gb=24, timeout_s=3000),
    "c16_t_tlv_iter_4": dict(cost=1500, mem_gb=24, timeout_s=3000),
    "c16_t_tlv_iter_6": dict(cost=2000, mem_gb=30, timeout_s=5400),
    "c16_t_reencode_single_element_6": dict(cost=1500, mem_gb=24, timeout_s=3000),
    "c16_t_reencode_container_6": dict(cost=1500, mem_gb=24, timeout_s=3000),
    "c16_t_container_len_7": dict(cost=900, mem_gb=16, timeout_s=3000),
    "c16_t_container_len_10": dict(cost=1500, mem_gb=24, timeout_s=5400),
    "c16_t_tlv_iter_nested_skeleton": dict(cost=500, mem_gb=24, timeout_s=3600),
    "c09_q_backoff_vs_spec_n0": dict(arith=True, arith_focus=["backoff_ms"], cost=60),
    "c09_q_backoff_vs_spec_n1": dict(arith=True, arith_focus=["backoff_ms"], cost=60),
    "c09_q_backoff_vs_spec_n2": dict(arith=True, arith_focus=["backoff_ms"], cost=60),
    "c09_q_backoff_vs_spec_n3": dict(arith=True, arith_focus=["backoff_ms"], cost=60),
    "c09_q_backoff_vs_spec_n4": dict(arith=True, arith_focus=["backoff_ms"], cost=60),
    "c09_q_backoff_vs_spec_n5": dict(arith=True, arith_focus=["backoff_ms"], cost=60),
    "c07_q_failsafe_rollback_leaves_no_session_on_dropped_fabric": dict(cost=120, mem_gb=16),
    "c19_q_chain_decision_equals_reference": dict(cost=120, replay="trace-only"),
    "c06_q_attr_gate": dict(replay="trace-only"),
    "c06_q_cmd_gate": dict(replay="trace-only"),
    "c06_q_event_gate": dict(replay="trace-only"),
    "c06_q_expand_concrete_read_path": dict(replay="trace-only", cost=60),
    "c06_t_expand_cache_only_for_identical_path": dict(replay="trace-only", cost=600, timeout_s=2400),
    "c06_t_expand_wildcard_leaf": dict(replay="trace-only", cost=300, timeout_s=1800),
    "c13_q_record_keeps_coverage": dict(replay="trace-only", cost=230),
    "c16_q_scalar_accessors_10": dict(cost=300, mem_gb=12),
    "c16_q_integer_decode_equals_reference_10": dict(cost=300, mem_gb=12),
    "c16_q_container_len_5": dict(cost=330, mem_gb=12),
    "c03_q_encode_then_decode_roundtrip": dict(cost=130),
    "c13_q_purge_up_to": dict(cost=100),
    "c12_q_event_number_step": dict(arith=True, arith_focus=["next_event_number"], cost=40),
    "c12_t_event_number_schedule4": dict(arith=True, arith_focus=["next_event_number"], cost=300, timeout_s=1800),
    "c04_t_group_store_full_eviction": dict(cost=120, timeout_s=1800),
    "c04_q_session_first_two_messages": dict(cost=120),
    "c07_q_remove_for_fabric": dict(cost=480, mem_gb=24, timeout_s=1500),
    "c20_q_pase_purge": dict(cost=480, mem_gb=24, timeout_s=1500),
    "c07_q_failsafe_rollback_keeping_the_answering_session": dict(cost=120, mem_gb=16),
    "c20_q_eviction_choice": dict(cost=150),
    "c10_q_exchange_matching_and_gate": dict(cost=200, mem_gb=16),
    "c10_q_exchange_table_full": dict(cost=150, mem_gb=16),
    "c15_q_retransmission_identical_header": dict(cost=150),
    "c15_q_send_counter_strictly_increases": dict(cost=150),
    "c18_q_ringbuf8_fifo": dict(cost=200),
}

COMMON_ASSUMPTIONS = [
    "trusted base: rustc MIR -> Kani 0.68 goto translation, CBMC 6.11 symbolic execution and bit-blasting, CaDiCaL (cvc5 1.0 / z3 4.8.12 for SMT-exported arithmetic)",
    "features encoded: --no-default-features --features std,groups,case-resumption (no os/rustcrypto/log); reads of uninitialised memory are not checked (-Z uninit-checks unusable)",
    "every verdict is bounded: loops are unrolled to the harness' unwind bound and an unwinding assertion failing makes the run inconclusive, never a pass",
]

BOUNDS = {
    "C02": "one step from every window state (closed / open with any failure count 0..255, any expiry); salt length 0..40, timeout any u16, clock any u64 tick; 20-failure ladder from a fresh window",
    "C03": "datagram <= 40 bytes (symbolic length); payload <= 4 bytes for the round trip; all header flag/field combinations",
    "C04": "window step: exhaustive over (max_ctr 2^32, bitmap 2^16, counter 2^32, ghost 2^32) for unicast/unsecured/group modes; histories of 3 (quick) / 4 (thorough) receives from the session's initial state; group sender table with 2 entries (quick) and the real 16 entries incl. LRU eviction (thorough)",
    "C05": "<= 2 subjects, <= 2 targets, <= 2 endpoint device types per entry (thorough: all at once; quick: three slices); accessor with <= 2 tags; access word all 2^16",
    "C06": "cluster with <= 2 attributes / 1 command / 1 event and symbolic access words; node 1 endpoint x 1 cluster x 2 attributes; request path fully symbolic",
    "C07": "session table capacity 3 (feature max-sessions-3); 2 sessions of arbitrary mode for remove_for_fabric; concrete 2-session scene for the fail-safe rollback",
    "C08": "every fail-safe context (all 32 flag sets, fabric index, timeout, arming instant) x every session mode; clock any u64 tick below 2^62",
    "C09": "one step from every reliability state; back-off: base interval < 2^22 ms, transmission count 0..5, jitter byte in {0,1,128,255}",
    "C10": "<= 3 exchange slots (any id / role / freed again), exchange table full at MAX_EXCHANGES = 5",
    "C12": "step: every invariant state (u32 ring / 28-bit skip-zero ring / u64 with epoch 10000); schedules of 5 operations; check-in epoch <= 4 and jumps <= 6 in the schedule harness",
    "C13": "pending-change table <= 3 entries (overflow proved unreachable there); <= 2 subscriptions in the table + 1 in flight; timing: all u16 intervals, stamps < 2^62 ticks",
    "C15": "3 live sessions, 2 live exchanges, at most 1 interleaved receive between a transmission and its retransmission",
    "C16": "header arithmetic: all 10- and 18-byte prefixes; accessors / reference differential: every byte string <= 10; container_len/raw_value: <= 5 (quick) / 7 (thorough); iterators on arbitrary bytes <= 4..6 (thorough only); round trips: one element, strings <= 4 bytes",
    "C17": "PlainHdr 26-byte prefixes; ProtoHdr 14; status report 12; BTP header 6; check-in <= 40; base38 chunks <= 5; ParseBuf/WriteBuf 12-byte buffers, 4 operations",
    "C18": "hostile data segment <= 8 bytes, handshake <= 10 bytes; window size 1..255, segment size 20..244 (sender step: 20..21, message <= 24 bytes); ring buffer N = 8 for the FIFO equivalence",
    "C19": "chain shapes NOC->RCAC and NOC->ICAC->RCAC; every attribute combination per certificate; time any u64 seconds, reliable or last-known-good",
    "C20": "session table capacity 3 (feature max-sessions-3); 3 sessions with arbitrary reserved / expired / last-use / exchange occupancy; clock tie allowed",
}

ASSUMPTIONS = {
    "C02": ["clock = symbolic non-decreasing tick source (stub of embassy_time::Instant::now)", "the mDNS notifier is a counting closure"],
    "C03": ["AEAD = recording oracle with symbolic accept/reject (identity cipher for the round trip): cryptographic strength is trusted, the check is about WHAT is authenticated"],
    "C04": [
        "group (roll-over) mode: the 'accepted once stays rejected' frame is claimed for forward jumps <= 2^31-1-16 only (beyond that the modular comparison itself makes an old counter look new again)",
        "GroupCtrStore pre-states hold one entry per (fabric, node) - the representation invariant of post_recv's own insert path",
    ],
    "C05": ["Accessor carries a never-dereferenced &Matter (AclEntry::allow does not use it)", "a subject in the tag range with all-zero low 32 bits is not a tag (matches acl::is_noc_cat)"],
    "C06": ["AccessReq::allow replaced by a recording oracle (C05 decides allow itself); counterexamples are CBMC traces (compiler-level stub)"],
    "C07": ["KV store = DummyKvBlobStore (nothing persisted => the added fabric is dropped), networks = DummyNetworkAccess", "resumption records of a rolled-back fabric are purged in InteractionModel::notify_fabric_removed (async context, not encoded)"],
    "C08": ["key generation = oracle", "certificate arguments of AddNOC/UpdateNOC are not exercised on the accepting side (needs real certificates)"],
    "C09": ["SMT route validated per run by the x00_q_smt_selftest harness; CBMC 6.11's SMT2 export of checked multiplication is repaired textually (engine/run.py fix_overflow_mult)"],
    "C10": ["no ack present on the matched message (ack matching is C09)"],
    "C12": ["the application persists exactly what the counter API tells it to (check-in counter)", "KV store failures are symbolic for the event number"],
    "C13": ["ChangedAttrs::promote_and_insert stubbed by assert(false) in the small-table harness (= proved unreachable below capacity)"],
    "C15": ["a session ends before 2^32 messages (counter wrap not claimed)"],
    "C16": ["core::str::from_utf8 stubbed by a symbolic Ok/Err in the tlv_iter harness"],
    "C17": ["AEAD / HMAC oracles for the check-in framing (HMAC = a fixed function of its input)"],
    "C18": ["RingBuf::{push,pop,pop_byte,free} replaced by an abstract FIFO (length accounting + 48-byte content) in the session harnesses; the real RingBuf<8> is checked against a FIFO separately; native replay runs the real ring buffer", "the ATT MTU reported by the local BLE stack is >= 23"],
    "C19": ["11 CertRef accessors + UtcTime::{any_secs, reliable_secs} stubbed by symbolic attributes; signature verification = oracle"],
    "C20": ["clock contract: non-decreasing, ties allowed"],
}
