"""Per-harness options and per-property documentation strings (bounds / assumptions) that are
copied into the evidence files. Keys of CFG are harness function names.

 cost        rough wall seconds on this machine (scheduling + which harnesses get a cover sample in quick)
 timeout_s   wall cap for the solver call      mem_gb  address-space cap
 unwindset   extra per-loop bounds for CBMC    arith   decide via SMT-LIB2 export (cvc5 / z3)
 replay      'trace-only' for harnesses that rely on compiler-level stubs
"""
CFG = {
    "c12_q_event_number_step": dict(arith=True, arith_focus=["next_event_number"], cost=40),
    "c12_t_event_number_schedule4": dict(arith=True, arith_focus=["next_event_number"], cost=300, timeout_s=1800),
    "c04_t_group_store_full_eviction": dict(cost=120, timeout_s=1800),
    "c04_q_session_first_two_messages": dict(cost=120),
    "c07_q_remove_for_fabric": dict(cost=200, mem_gb=24, timeout_s=900),
    "c20_q_pase_purge": dict(cost=200, mem_gb=24, timeout_s=900),
    "c20_q_eviction_choice": dict(cost=150),
    "c10_q_exchange_matching_and_gate": dict(cost=200, mem_gb=16),
    "c10_q_exchange_table_full": dict(cost=150, mem_gb=16),
    "c15_q_retransmission_identical_header": dict(cost=150),
    "c15_q_send_counter_strictly_increases": dict(cost=150),
    "c18_q_ringbuf8_fifo": dict(cost=200),
}

COMMON_ASSUMPTIONS = [
    "trusted base: rustc MIR -> Kani 0.68 goto translation, CBMC 6.11 symbolic execution and bit-blasting, CaDiCaL (cvc5 1.0 / z3 4.8.12 for SMT-exported arithmetic)",
    "features encoded: --no-default-features --features std,groups,case-resumption (no os/rustcrypto/log); reads of uninitialised memory are not checked (-Z uninit-checks unusable)",
    "every verdict is bounded: loops are unrolled to the harness' unwind bound and an unwinding assertion failing makes the run inconclusive, never a pass",
]

BOUNDS = {
    "C04": "window step: exhaustive over (max_ctr 2^32, bitmap 2^16, counter 2^32, ghost 2^32) for unicast/unsecured/group modes; histories of 3 (quick) / 4 (thorough) receives from RxCtrState::new(0); group sender table with 2 entries (quick) and the real 16 entries incl. LRU eviction (thorough)",
}

ASSUMPTIONS = {
    "C04": [
        "group (roll-over) mode: the 'accepted once stays rejected' frame is claimed for forward jumps <= 2^31-1-16 only (beyond that the modular comparison itself makes an old counter look new again)",
        "GroupCtrStore pre-states hold one entry per (fabric, node) - the representation invariant of post_recv's own insert path",
    ],
}
