//! C17 - write-buffer primitives, mounted into rs-matter/src/utils/storage/writebuf.rs.
#![allow(unused_imports, dead_code)]
use super::*;
use crate::verif_support::*;
use crate::{vassert, vcover, vok};

/// reserve / append / prepend: never panic, never write outside [start, end), `as_slice` is
/// exactly prepended ++ appended; NoSpace instead of overflow.
#[cfg_attr(kani, kani::proof)]
#[cfg_attr(kani, kani::unwind(14))]
#[cfg_attr(not(kani), test)]
fn c17_q_writebuf_primitives() {
    let mut buf = [0u8; 12];
    let mut wb = WriteBuf::new(&mut buf);
    let res = any_usize();
    assume(res <= 16);
    let r = wb.reserve(res);
    vassert!(r.is_ok() == (res <= 12), "ROLE:reserve-within-capacity");
    let res = if r.is_ok() { res } else { 0 };
    let a: [u8; 4] = any_bytes::<4>();
    let al = any_usize();
    assume(al <= 4);
    let ra = wb.append(&a[..al]);
    vassert!(ra.is_ok() == (res + al <= 12), "ROLE:append-NoSpace-instead-of-overflow");
    let al = if ra.is_ok() { al } else { 0 };
    let v = any_u16();
    let rv = wb.le_u16(v);
    vassert!(rv.is_ok() == (res + al + 2 <= 12), "ROLE:append-NoSpace-instead-of-overflow");
    let vl = if rv.is_ok() { 2 } else { 0 };
    let p: [u8; 4] = any_bytes::<4>();
    let plen = any_usize();
    assume(plen <= 4);
    let rp = wb.prepend(&p[..plen]);
    vassert!(rp.is_ok() == (plen <= res), "ROLE:prepend-only-into-reserved-space");
    let plen = if rp.is_ok() { plen } else { 0 };
    vassert!(wb.get_start() == res - plen && wb.get_tail() == res + al + vl, "ROLE:start-end-accounting");
    let s = wb.as_slice();
    vassert!(s.len() == plen + al + vl, "ROLE:slice-is-prepended-plus-appended");
    let mut i = 0;
    while i < plen {
        vassert!(s[i] == p[i], "ROLE:slice-is-prepended-plus-appended");
        i += 1;
    }
    let mut i = 0;
    while i < al {
        vassert!(s[plen + i] == a[i], "ROLE:slice-is-prepended-plus-appended");
        i += 1;
    }
    if vl == 2 {
        vassert!(s[plen + al] == v as u8 && s[plen + al + 1] == (v >> 8) as u8, "ROLE:le-write-value");
    }
    vcover!(plen == 4 && al == 4 && vl == 2);
}
