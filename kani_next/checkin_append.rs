
// ------------------------------------------------------------------------------------------
// C17: Check-In message framing (nonce | counter | app data | tag) with oracle AEAD / HMAC.
// ------------------------------------------------------------------------------------------
#[cfg_attr(kani, kani::proof)]
#[cfg_attr(kani, kani::unwind(44))]
#[cfg_attr(not(kani), test)]
fn c17_q_checkin_generate_parse_roundtrip() {
    use crate::crypto::AEAD_KEY_ZEROED;
    use crate::verif_support::vcrypto::{VerifCrypto, REC};
    let key = AEAD_KEY_ZEROED;
    let ci = CheckIn::new(key.reference());
    let counter = any_u32();
    let app: [u8; 4] = any_bytes::<4>();
    let al = any_usize();
    assume(al <= 4);
    let blen = any_usize();
    assume(blen <= 40);
    let mut buf = [0u8; 40];
    unsafe {
        REC.accept = true;
    }
    let r = ci.generate(VerifCrypto, counter, &app[..al], &mut buf[..blen]);
    let need = CheckIn::payload_len(al);
    vassert!(need == 13 + 4 + 16 + al, "ROLE:checkin-payload-length-formula");
    vassert!(r.is_ok() == (blen >= need), "ROLE:checkin-generate-needs-exactly-payload-len");
    let len = match r {
        Ok(p) => p.len(),
        Err(_) => return,
    };
    vassert!(len == need, "ROLE:checkin-generated-length");
    let parsed = vok!(ci.parse(VerifCrypto, &mut buf[..len]), "parse-own-message");
    vassert!(parsed.counter == counter, "ROLE:checkin-counter-roundtrip");
    vassert!(parsed.app_data.len() == al, "ROLE:checkin-app-data-roundtrip");
    let mut i = 0;
    while i < al {
        vassert!(parsed.app_data[i] == app[i], "ROLE:checkin-app-data-roundtrip");
        i += 1;
    }
    vcover!(al == 4);
    vcover!(al == 0);
}

/// Arbitrary <= 40 bytes offered to `parse`: value or error, never a panic; too short is an
/// error; a rejecting AEAD is an error; a nonce that does not belong to the counter is an error.
#[cfg_attr(kani, kani::proof)]
#[cfg_attr(kani, kani::unwind(44))]
#[cfg_attr(not(kani), test)]
fn c17_q_checkin_parse_safe() {
    use crate::crypto::AEAD_KEY_ZEROED;
    use crate::verif_support::vcrypto::{VerifCrypto, REC};
    let key = AEAD_KEY_ZEROED;
    let ci = CheckIn::new(key.reference());
    let mut buf: [u8; 40] = any_bytes::<40>();
    let orig = buf;
    let n = any_usize();
    assume(n <= 40);
    let accept = any_bool();
    unsafe {
        REC.accept = accept;
    }
    let r = ci.parse(VerifCrypto, &mut buf[..n]);
    if n < 33 {
        vcover!(true);
        vassert!(r.is_err(), "ROLE:checkin-too-short-refused");
    }
    if !accept {
        vassert!(r.is_err(), "ROLE:checkin-authentication-failure-refused");
    }
    if let Ok(p) = r {
        vcover!(true);
        vassert!(p.app_data.len() == n - 33, "ROLE:checkin-app-data-length");
        // the nonce sent must be the one derived from the counter (oracle HMAC is a function)
        let exp = crate::verif_support::vcrypto::oracle_hmac(&p.counter.to_le_bytes());
        let mut i = 0;
        while i < 13 {
            vassert!(orig[i] == exp[i], "ROLE:checkin-nonce-must-match-counter");
            i += 1;
        }
    }
}
