//! C17 - read-buffer primitives (offset arithmetic), mounted into
//! rs-matter/src/utils/storage/parsebuf.rs.
#![allow(unused_imports, dead_code)]
use super::*;
use crate::verif_support::*;
use crate::{vassert, vcover, vok};

/// Any sequence of 4 primitive reads / tail cuts on any buffer <= 12 bytes: never panics,
/// `read_off + left` never exceeds the buffer, values are the little-endian bytes.
#[cfg_attr(kani, kani::proof)]
#[cfg_attr(kani, kani::unwind(14))]
#[cfg_attr(not(kani), test)]
fn c17_q_parsebuf_primitives() {
    let b: [u8; 12] = any_bytes::<12>();
    let n = any_usize();
    assume(n <= 12);
    let mut buf = b;
    let mut pb = ParseBuf::new(&mut buf[..n]);
    let mut consumed = 0usize;
    let mut cut = 0usize;
    let mut step = 0;
    while step < 4 {
        let op = any_u8();
        assume(op < 5);
        let off = pb.read_off();
        vassert!(off == consumed, "ROLE:read-offset-counts-consumed-bytes");
        match op {
            0 => {
                if let Ok(v) = pb.le_u8() {
                    vassert!(v == b[off], "ROLE:le-read-value");
                    consumed += 1;
                } else {
                    vassert!(n - consumed - cut < 1, "ROLE:read-fails-only-when-truncated");
                }
            }
            1 => {
                if let Ok(v) = pb.le_u16() {
                    vassert!(v == u16::from_le_bytes([b[off], b[off + 1]]), "ROLE:le-read-value");
                    consumed += 2;
                } else {
                    vassert!(n - consumed - cut < 2, "ROLE:read-fails-only-when-truncated");
                }
            }
            2 => {
                if let Ok(v) = pb.le_u32() {
                    vassert!(v == u32::from_le_bytes([b[off], b[off + 1], b[off + 2], b[off + 3]]), "ROLE:le-read-value");
                    consumed += 4;
                } else {
                    vassert!(n - consumed - cut < 4, "ROLE:read-fails-only-when-truncated");
                }
            }
            3 => {
                if pb.le_u64().is_ok() {
                    consumed += 8;
                } else {
                    vassert!(n - consumed - cut < 8, "ROLE:read-fails-only-when-truncated");
                }
            }
            _ => {
                let t = any_usize();
                assume(t <= 16);
                match pb.tail(t) {
                    Ok(s) => {
                        vassert!(s.len() == t, "ROLE:tail-length");
                        cut += t;
                    }
                    Err(_) => vassert!(t > n - consumed - cut, "ROLE:tail-fails-only-when-too-long"),
                }
            }
        }
        vassert!(consumed + cut <= n, "ROLE:never-reads-past-the-buffer");
        vassert!(pb.as_slice().len() == n - consumed - cut, "ROLE:remaining-length-accounting");
        step += 1;
    }
    vcover!(consumed == 12);
    vcover!(cut > 0 && consumed > 0);
}
