//! C17/C18 - BTP segment header and handshake framing, mounted into
//! rs-matter/src/transport/network/btp/session/packet.rs.
#![allow(unused_imports, dead_code)]
use super::*;
use crate::verif_support::*;
use crate::{vassert, vcover, vok};

/// Header encode -> decode for every flag/field combination.
#[cfg_attr(kani, kani::proof)]
#[cfg_attr(kani, kani::unwind(10))]
#[cfg_attr(not(kani), test)]
fn c17_q_btp_hdr_encode_decode() {
    let mut h = BtpHdr::new();
    let handshake = any_bool();
    if handshake {
        h.set_handshake();
    }
    let op = if any_bool() { Some(any_u8()) } else { None };
    h.set_opcode(op);
    let ack = if any_bool() { Some(any_u8()) } else { None };
    h.set_ack(ack);
    let seq = any_u8();
    if !handshake {
        h.set_seq(Some(seq));
    }
    let ml = if any_bool() && !handshake { Some(any_u16()) } else { None };
    h.set_msg_len(ml);
    if any_bool() {
        h.set_continue();
    }
    if any_bool() {
        h.set_final();
    }
    let mut out = [0u8; 8];
    let mut wb = WriteBuf::new(&mut out);
    vok!(h.encode(&mut wb), "encode");
    let len = wb.get_tail();
    vassert!(len == h.len() && len <= 6, "ROLE:btp-header-len-matches-encoding");
    let mut it = out[..len].iter().copied();
    let d = vok!(BtpHdr::from(&mut it), "decode");
    vassert!(it.next().is_none(), "ROLE:btp-header-decoder-consumes-exactly-the-encoding");
    vassert!(d.is_handshake() == handshake && d.get_opcode() == op && d.get_ack() == ack, "ROLE:btp-header-fields-roundtrip");
    vassert!(d.get_seq() == if handshake { None } else { Some(seq) }, "ROLE:btp-header-fields-roundtrip");
    vassert!(d.get_msg_len() == ml && d.is_continue() == h.is_continue() && d.is_final() == h.is_final(), "ROLE:btp-header-fields-roundtrip");
    vcover!(len == 6);
}

/// Arbitrary <= 6 bytes: decode never panics; what it accepts re-encodes to the same bytes
/// up to the reserved flag bits the decoder drops (0x80, 0x10).
#[cfg_attr(kani, kani::proof)]
#[cfg_attr(kani, kani::unwind(10))]
#[cfg_attr(not(kani), test)]
fn c17_q_btp_hdr_decode_safe() {
    let b: [u8; 6] = any_bytes::<6>();
    let n = any_usize();
    assume(n <= 6);
    let mut it = b[..n].iter().copied();
    if let Ok(h) = BtpHdr::from(&mut it) {
        let mut rest = 0;
        while it.next().is_some() {
            rest += 1;
        }
        let used = n - rest;
        vassert!(h.len() == used, "ROLE:btp-header-len-matches-consumed-bytes");
        let mut out = [0u8; 8];
        let mut wb = WriteBuf::new(&mut out);
        vok!(h.encode(&mut wb), "encode");
        let w = wb.as_slice();
        vassert!(w.len() == used, "ROLE:reencode-same-length");
        vassert!(w[0] == b[0] & 0x6f, "ROLE:reencode-keeps-the-defined-flag-bits");
        let mut i = 1;
        while i < used {
            vassert!(w[i] == b[i], "ROLE:reencode-same-bytes");
            i += 1;
        }
        vcover!(used == 6);
    }
}

/// Handshake request / response bodies.
#[cfg_attr(kani, kani::proof)]
#[cfg_attr(kani, kani::unwind(10))]
#[cfg_attr(not(kani), test)]
fn c17_q_btp_handshake_roundtrip() {
    let req = HandshakeReq { versions: any_u32(), mtu: any_u16(), window_size: any_u8() };
    let mut out = [0u8; 8];
    let mut wb = WriteBuf::new(&mut out);
    vok!(req.encode(&mut wb), "encode");
    vassert!(wb.get_tail() == 7, "ROLE:btp-handshake-request-length");
    let d = vok!(HandshakeReq::from(out[..7].iter().copied()), "decode");
    vassert!(d.versions == req.versions && d.mtu == req.mtu && d.window_size == req.window_size, "ROLE:btp-handshake-fields-roundtrip");
    let resp = HandshakeResp { version: any_u8(), mtu: any_u16(), window_size: any_u8() };
    let mut out = [0u8; 8];
    let mut wb = WriteBuf::new(&mut out);
    vok!(resp.encode(&mut wb), "encode");
    vassert!(wb.get_tail() == 4, "ROLE:btp-handshake-response-length");
    let d = vok!(HandshakeResp::from(out[..4].iter().copied()), "decode");
    vassert!(d.version == resp.version && d.mtu == resp.mtu && d.window_size == resp.window_size, "ROLE:btp-handshake-fields-roundtrip");
    // truncated bodies are refused
    let n = any_usize();
    assume(n < 7);
    vassert!(HandshakeReq::from(out[..n].iter().copied()).is_err(), "ROLE:truncated-handshake-refused");
}
