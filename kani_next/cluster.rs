//! C06 - per-leaf access gates of a cluster (attribute / command / event), mounted into
//! rs-matter/src/dm/types/cluster.rs. `AccessReq::allow` is replaced by a recording oracle.
#![allow(unused_imports, dead_code, static_mut_refs)]
use super::*;
use crate::acl::verif_kani_acl::{allow_oracle, oracle_reset, uninit_matter, ORACLE_CALLS, ORACLE_HAS_PERMS, ORACLE_OP, ORACLE_PATH, ORACLE_PERMS};
use crate::acl::{AccessReq, Accessor, AccessorSubjects, AuthMode};
use crate::verif_support::*;
use crate::{vassert, vcover, vok};

const READ: u16 = 0x10;
const WRITE: u16 = 0x20;
const FAB_SCOPED: u16 = 0x40;
const TIMED_ONLY: u16 = 0x100;

fn any_accessor() -> Accessor<'static> {
    Accessor::new(any_u8(), false, AccessorSubjects::new(5), Some(AuthMode::Case), uninit_matter())
}

/// Attribute gate: Ok => the oracle was consulted exactly once, said yes, and was shown the
/// attribute's DECLARED access word and the right operation; the attribute supports the
/// operation; a timed-only attribute is written only inside a timed interaction; an unknown
/// attribute is never Ok.
#[cfg_attr(kani, kani::proof)]
#[cfg_attr(kani, kani::unwind(5))]
#[cfg_attr(kani, kani::stub(AccessReq::allow, allow_oracle))]
#[cfg_attr(not(kani), test)]
#[cfg_attr(not(kani), ignore)]
fn c06_q_attr_gate() {
    let acc0 = any_u16();
    let acc1 = any_u16();
    let attrs = [
        Attribute::new(7, Access::from_bits_truncate(acc0), Quality::NONE),
        Attribute::new(9, Access::from_bits_truncate(acc1), Quality::NONE),
    ];
    let cl = Cluster::new(10, 1, 0, &attrs, &[], &[], |_, _, _| true, |_, _, _| true, |_, _, _| true);
    let accessor = any_accessor();
    let timed = any_bool();
    let write = any_bool();
    let id = any_u32();
    let ans = any_bool();
    oracle_reset([ans; 4]);
    let r = cl.check_attr_access(&accessor, timed, GenericPath::new(Some(1), Some(10), Some(id)), &[], write, id);
    let declared = if id == 7 { Some(attrs[0].access.bits()) } else if id == 9 { Some(attrs[1].access.bits()) } else { None };
    let op = if write { WRITE } else { READ };
    unsafe {
        match r {
            Ok(()) => {
                vcover!(write);
                vcover!(!write);
                vassert!(declared.is_some(), "ROLE:unknown-attribute-never-accessible");
                let d = declared.unwrap();
                vassert!(ORACLE_CALLS == 1 && ans, "ROLE:access-only-after-exactly-one-positive-permission-check");
                vassert!(ORACLE_HAS_PERMS && ORACLE_PERMS == d, "ROLE:permission-check-sees-the-declared-access");
                vassert!(ORACLE_OP == op, "ROLE:permission-check-sees-the-operation");
                vassert!(ORACLE_PATH == (Some(1), Some(10), Some(id)), "ROLE:permission-check-sees-the-concrete-path");
                vassert!(d & op != 0, "ROLE:element-must-support-the-operation");
                vassert!(!(write && !timed && d & TIMED_ONLY != 0), "ROLE:timed-only-attribute-written-only-in-timed-interaction");
            }
            Err(st) => {
                if let Some(d) = declared {
                    if write && !timed && d & TIMED_ONLY != 0 {
                        vcover!(true);
                        vassert!(matches!(st, IMStatusCode::NeedsTimedInteraction), "ROLE:untimed-write-to-timed-only-yields-NeedsTimedInteraction");
                        vassert!(ORACLE_CALLS == 0, "ROLE:refused-before-permission-check-has-no-effect");
                    } else if d & op != 0 {
                        vcover!(true);
                        vassert!(ORACLE_CALLS == 1 && !ans && matches!(st, IMStatusCode::UnsupportedAccess), "ROLE:denied-permission-yields-UnsupportedAccess");
                    }
                } else {
                    vassert!(ORACLE_CALLS == 0, "ROLE:unknown-attribute-never-reaches-permission-check");
                }
            }
        }
    }
}

/// Command gate: additionally fabric-scoped commands are refused to accessors without fabric.
#[cfg_attr(kani, kani::proof)]
#[cfg_attr(kani, kani::unwind(5))]
#[cfg_attr(kani, kani::stub(AccessReq::allow, allow_oracle))]
#[cfg_attr(not(kani), test)]
#[cfg_attr(not(kani), ignore)]
fn c06_q_cmd_gate() {
    let acc0 = any_u16();
    let cmds = [Command::new(3, None, Access::from_bits_truncate(acc0))];
    let cl = Cluster::new(10, 1, 0, &[], &cmds, &[], |_, _, _| true, |_, _, _| true, |_, _, _| true);
    let accessor = any_accessor();
    let fab = accessor.fab_idx;
    let timed = any_bool();
    let id = any_u32();
    let ans = any_bool();
    oracle_reset([ans; 4]);
    let r = cl.check_cmd_access(&accessor, timed, GenericPath::new(Some(1), Some(10), Some(id)), &[], id);
    let declared = if id == 3 { Some(cmds[0].access.bits()) } else { None };
    unsafe {
        match r {
            Ok(()) => {
                vcover!(true);
                vassert!(ORACLE_CALLS == 1 && ans, "ROLE:access-only-after-exactly-one-positive-permission-check");
                vassert!(ORACLE_OP == WRITE, "ROLE:permission-check-sees-the-operation");
                let d = declared.unwrap_or(0);
                vassert!(ORACLE_HAS_PERMS && ORACLE_PERMS == d, "ROLE:permission-check-sees-the-declared-access");
                vassert!(timed || d & TIMED_ONLY == 0, "ROLE:timed-only-command-only-in-timed-interaction");
                vassert!(!(d & FAB_SCOPED != 0 && fab == 0), "ROLE:fabric-scoped-command-refused-without-fabric");
            }
            Err(st) => {
                let d = declared.unwrap_or(0);
                if !timed && d & TIMED_ONLY != 0 {
                    vassert!(matches!(st, IMStatusCode::NeedsTimedInteraction) && ORACLE_CALLS == 0, "ROLE:untimed-invoke-of-timed-only-yields-NeedsTimedInteraction");
                } else if d & FAB_SCOPED != 0 && fab == 0 {
                    vcover!(true);
                    vassert!(matches!(st, IMStatusCode::UnsupportedAccess) && ORACLE_CALLS == 0, "ROLE:fabric-scoped-command-refused-without-fabric");
                } else {
                    vassert!(ORACLE_CALLS == 1 && !ans, "ROLE:denied-permission-yields-UnsupportedAccess");
                }
            }
        }
    }
}

/// Event gate.
#[cfg_attr(kani, kani::proof)]
#[cfg_attr(kani, kani::unwind(5))]
#[cfg_attr(kani, kani::stub(AccessReq::allow, allow_oracle))]
#[cfg_attr(not(kani), test)]
#[cfg_attr(not(kani), ignore)]
fn c06_q_event_gate() {
    let acc0 = any_u16();
    let evs = [Event::new(2, Access::from_bits_truncate(acc0))];
    let cl = Cluster::new(10, 1, 0, &[], &[], &evs, |_, _, _| true, |_, _, _| true, |_, _, _| true);
    let accessor = any_accessor();
    let id = any_u32();
    let ans = any_bool();
    oracle_reset([ans; 4]);
    let r = cl.check_event_access(&accessor, GenericPath::new(Some(1), Some(10), Some(id)), &[], id);
    unsafe {
        vassert!(ORACLE_CALLS == 1, "ROLE:event-access-always-goes-through-the-permission-check");
        vassert!(r.is_ok() == ans, "ROLE:event-readable-iff-permitted");
        vassert!(ORACLE_OP == READ, "ROLE:permission-check-sees-the-operation");
        vassert!(ORACLE_PERMS == if id == 2 { evs[0].access.bits() } else { 0 }, "ROLE:permission-check-sees-the-declared-access");
    }
}
