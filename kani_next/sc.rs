//! C17 - status report framing, mounted into rs-matter/src/sc.rs.
#![allow(unused_imports, dead_code)]
use super::*;
use crate::utils::storage::{ReadBuf, WriteBuf};
use crate::verif_support::*;
use crate::{vassert, vcover, vok};

/// decode -> encode is the identity on every accepted byte string <= 12; never panics.
#[cfg_attr(kani, kani::proof)]
#[cfg_attr(kani, kani::unwind(14))]
#[cfg_attr(not(kani), test)]
fn c17_q_status_report_decode_encode() {
    let b: [u8; 12] = any_bytes::<12>();
    let n = any_usize();
    assume(n <= 12);
    let mut rb = ReadBuf::new(&b[..n]);
    if let Ok(d) = StatusReport::read(&mut rb) {
        vassert!(n >= 8, "ROLE:status-report-needs-8-byte-header");
        vassert!(d.proto_data.len() == n - 8, "ROLE:status-report-data-is-the-rest");
        let mut buf = [0u8; 16];
        let mut wb = WriteBuf::new(&mut buf);
        vok!(d.write(&mut wb), "write");
        let w = wb.as_slice();
        vassert!(w.len() == n, "ROLE:reencode-same-length");
        let mut i = 0;
        while i < n {
            vassert!(w[i] == b[i], "ROLE:reencode-same-bytes");
            i += 1;
        }
        vcover!(n == 12);
    } else {
        vcover!(n >= 8);
    }
}

/// encode -> decode for every field value.
#[cfg_attr(kani, kani::proof)]
#[cfg_attr(kani, kani::unwind(14))]
#[cfg_attr(not(kani), test)]
fn c17_q_status_report_encode_decode() {
    let data: [u8; 4] = any_bytes::<4>();
    let dl = any_usize();
    assume(dl <= 4);
    let gc = any_u16();
    let general: Option<GeneralCode> = num::FromPrimitive::from_u16(gc);
    let Some(general) = general else { return };
    let sr = StatusReport {
        general_code: general,
        proto_id: any_u32(),
        proto_code: any_u16(),
        proto_data: &data[..dl],
    };
    let mut buf = [0u8; 16];
    let mut wb = WriteBuf::new(&mut buf);
    vok!(sr.write(&mut wb), "write");
    let len = wb.get_tail();
    vassert!(len == 8 + dl, "ROLE:status-report-length");
    let mut rb = ReadBuf::new(&buf[..len]);
    let d = vok!(StatusReport::read(&mut rb), "read");
    vassert!(d.general_code as u16 == gc && d.proto_id == sr.proto_id && d.proto_code == sr.proto_code, "ROLE:status-report-fields-roundtrip");
    vassert!(d.proto_data.len() == dl, "ROLE:status-report-fields-roundtrip");
    let mut i = 0;
    while i < dl {
        vassert!(d.proto_data[i] == data[i], "ROLE:status-report-fields-roundtrip");
        i += 1;
    }
    vcover!(dl == 4);
}
