//! Solver harnesses mounted into rs-matter/src/pairing/qr.rs
#![allow(unused_imports, dead_code)]
use super::*;
