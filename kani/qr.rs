//! C17 - onboarding payloads: manual pairing code (Verhoeff digit, digit groups), QR bit reader
//! and fixed-field packing. Mounted into rs-matter/src/pairing/qr.rs.
#![allow(unused_imports, dead_code)]
use super::*;
use crate::verif_support::*;
use crate::{vassert, vcover, vok};

// --- reference Verhoeff (dihedral group D5 tables), independent of the `verhoeff` crate -------
const VD: [[u8; 10]; 10] = [
    [0, 1, 2, 3, 4, 5, 6, 7, 8, 9],
    [1, 2, 3, 4, 0, 6, 7, 8, 9, 5],
    [2, 3, 4, 0, 1, 7, 8, 9, 5, 6],
    [3, 4, 0, 1, 2, 8, 9, 5, 6, 7],
    [4, 0, 1, 2, 3, 9, 5, 6, 7, 8],
    [5, 9, 8, 7, 6, 0, 4, 3, 2, 1],
    [6, 5, 9, 8, 7, 1, 0, 4, 3, 2],
    [7, 6, 5, 9, 8, 2, 1, 0, 4, 3],
    [8, 7, 6, 5, 9, 3, 2, 1, 0, 4],
    [9, 8, 7, 6, 5, 4, 3, 2, 1, 0],
];
const VP: [[u8; 10]; 8] = [
    [0, 1, 2, 3, 4, 5, 6, 7, 8, 9],
    [1, 5, 7, 6, 2, 8, 3, 0, 9, 4],
    [5, 8, 0, 3, 7, 9, 6, 1, 4, 2],
    [8, 9, 1, 6, 0, 4, 3, 5, 2, 7],
    [9, 4, 5, 3, 1, 2, 6, 8, 7, 0],
    [4, 2, 8, 6, 5, 7, 3, 9, 0, 1],
    [2, 7, 9, 3, 8, 0, 6, 4, 1, 5],
    [7, 0, 4, 6, 9, 1, 3, 2, 5, 8],
];

/// true iff the digit string (values 0..9, check digit last) has a valid Verhoeff checksum
fn ref_verhoeff_ok(d: &[u8]) -> bool {
    let mut c = 0u8;
    let mut i = 0;
    while i < d.len() {
        let digit = d[d.len() - 1 - i];
        c = VD[c as usize][VP[i % 8][digit as usize] as usize];
        i += 1;
    }
    c == 0
}

fn ref_num(d: &[u8]) -> u32 {
    let mut v = 0u32;
    let mut i = 0;
    while i < d.len() {
        v = v * 10 + d[i] as u32;
        i += 1;
    }
    v
}

/// Differential oracle for the 11-character manual pairing code: on EVERY ASCII string of 11
/// characters the parser accepts exactly the strings of 11 digits with a valid Verhoeff digit,
/// a leading digit <= 3, a second group <= 65535 and a third group <= 8191, and returns the
/// passcode and short discriminator the spec's digit layout prescribes.
#[cfg_attr(kani, kani::proof)]
#[cfg_attr(kani, kani::unwind(14))]
#[cfg_attr(not(kani), test)]
fn c17_q_pairing_code_parse_equals_reference_11() {
    let b: [u8; 11] = any_bytes::<11>();
    let mut d = [0u8; 11];
    let mut all_digits = true;
    let mut i = 0;
    while i < 11 {
        assume(b[i] < 0x80);
        if b[i] >= b'0' && b[i] <= b'9' {
            d[i] = b[i] - b'0';
        } else {
            all_digits = false;
        }
        i += 1;
    }
    // SAFETY: ASCII only
    let s = unsafe { core::str::from_utf8_unchecked(&b) };
    let r = QrPayload::parse_pairing_code(s);
    let group = ref_num(&d[1..6]);
    let high = ref_num(&d[6..10]);
    let ok = all_digits && ref_verhoeff_ok(&d) && d[0] <= 3 && group <= 0xffff && high <= 0x1fff;
    vcover!(ok);
    vcover!(all_digits && !ref_verhoeff_ok(&d));
    vcover!(all_digits && ref_verhoeff_ok(&d) && d[0] > 3);
    match r {
        Ok(p) => {
            vassert!(ok, "ROLE:pairing-code-with-bad-check-digit-or-out-of-range-group-refused");
            vassert!(p.passcode() == (high << 14) | (group & 0x3fff), "ROLE:pairing-code-passcode-equals-reference");
            vassert!(p.short_discriminator() as u32 == ((d[0] as u32 & 3) << 2) | ((group >> 14) & 3), "ROLE:pairing-code-short-discriminator-equals-reference");
            vassert!(p.vid_pid().is_none(), "ROLE:short-pairing-code-carries-no-vid-pid");
        }
        Err(_) => vassert!(!ok, "ROLE:well-formed-pairing-code-accepted"),
    }
}

/// The QR bit reader against a 4-line reference: `read(len)` at any position of any <= 6-byte
/// buffer returns the LSB-first little-endian field or refuses a read past the end; the
/// position advances by exactly `len` on success and not at all on refusal.
#[cfg_attr(kani, kani::proof)]
#[cfg_attr(kani, kani::unwind(34))]
#[cfg_attr(not(kani), test)]
fn c17_q_qr_bit_reader_equals_reference() {
    let b: [u8; 6] = any_bytes::<6>();
    let n = any_usize();
    assume(n <= 6);
    let pos = any_usize();
    assume(pos <= 48);
    let len = any_usize();
    assume(len <= 32);
    let mut rd = BitReader { data: &b[..n], pos };
    let r = rd.read(len);
    if pos + len > n * 8 {
        vcover!(pos + len == n * 8 + 1);
        vassert!(r.is_err() && rd.pos == pos, "ROLE:qr-bit-read-past-the-end-refused");
    } else {
        vcover!(len == 27 && pos == 21);
        let mut whole: u64 = 0;
        let mut i = n;
        while i > 0 {
            whole = (whole << 8) | b[i - 1] as u64;
            i -= 1;
        }
        let want = if len == 0 { 0 } else { ((whole >> pos) & ((1u64 << len) - 1)) as u32 };
        vassert!(r.ok() == Some(want), "ROLE:qr-bit-field-equals-reference");
        vassert!(rd.pos == pos + len, "ROLE:qr-bit-reader-advances-by-len");
    }
}

/// The payload validity predicate on the vendor / product id rule of the spec (5.1.3.1:
/// vendor id is either unspecified (0) or an operational vendor id 0x0001..=0xFFF4; a product id
/// of 0 only goes with an unspecified vendor id) and on the passcode range; every other field
/// concrete and valid.
#[cfg_attr(kani, kani::proof)]
#[cfg_attr(kani, kani::unwind(6))]
#[cfg_attr(not(kani), test)]
fn c17_q_qr_payload_validity_equals_reference() {
    let vid = any_u16();
    let pid = any_u16();
    let pass = any_u32();
    let p = QrPayload::new(
        DiscoveryCapabilities::IP,
        CommFlowType::Standard,
        BasicCommData { password: pass.to_le_bytes().into(), discriminator: any_u16() & 0xfff },
        vid,
        pid,
        "",
        no_optional_data,
    );
    let pass_ok = pass != 0
        && pass <= 99999998
        && pass != 11111111
        && pass != 22222222
        && pass != 33333333
        && pass != 44444444
        && pass != 55555555
        && pass != 66666666
        && pass != 77777777
        && pass != 88888888
        && pass != 12345678
        && pass != 87654321;
    let vid_ok = vid <= 0xfff4;
    let pid_ok = pid != 0 || vid == 0;
    vcover!(pass_ok && vid_ok && pid_ok && vid == 0xfff1);
    vcover!(pass_ok && !vid_ok);
    vassert!(p.is_valid() == (pass_ok && vid_ok && pid_ok), "ROLE:qr-payload-valid-iff-fields-in-range");
}

/// Fixed-field packing: the 88 bits `emit_all_bits` produces for arbitrary field values, packed
/// LSB-first, read back with the parser's bit reader in the parser's field order, give the same
/// fields (the base-38 layer between the two is `c17_q_base38_*`).
#[cfg_attr(kani, kani::proof)]
#[cfg_attr(kani, kani::unwind(90))]
#[cfg_attr(not(kani), test)]
fn c17_q_qr_fixed_fields_bits_roundtrip() {
    let vid = any_u16();
    let pid = any_u16();
    let pass = any_u32();
    assume(pass < (1 << 27));
    let disc = any_u16();
    assume(disc < (1 << 12));
    let caps = any_u8();
    let flow = match any_u8() % 3 {
        0 => CommFlowType::Standard,
        1 => CommFlowType::UserIntent,
        _ => CommFlowType::Custom,
    };
    let p = QrPayload::new(
        DiscoveryCapabilities::from_bits_retain(caps),
        flow,
        BasicCommData { password: pass.to_le_bytes().into(), discriminator: disc },
        vid,
        pid,
        "",
        no_optional_data,
    );
    let mut bytes = [0u8; 12];
    let mut nbits = 0usize;
    for bit in p.emit_all_bits() {
        match bit {
            Ok(bit) => {
                vassert!(nbits < 96, "ROLE:qr-fixed-part-is-88-bits");
                if bit {
                    bytes[nbits / 8] |= 1 << (nbits % 8);
                }
                nbits += 1;
            }
            Err(_) => vassert!(false, "ROLE:NEVER:emit-bits-no-error"),
        }
    }
    vassert!(nbits == 88, "ROLE:qr-fixed-part-is-88-bits");
    let mut rd = BitReader::new(&bytes[..11]);
    vassert!(rd.read(3).ok() == Some(0), "ROLE:qr-version-roundtrip");
    vassert!(rd.read(16).ok() == Some(vid as u32), "ROLE:qr-vid-roundtrip");
    vassert!(rd.read(16).ok() == Some(pid as u32), "ROLE:qr-pid-roundtrip");
    vassert!(rd.read(2).ok() == Some(flow as u32), "ROLE:qr-flow-roundtrip");
    vassert!(rd.read(8).ok() == Some(caps as u32), "ROLE:qr-capabilities-roundtrip");
    vassert!(rd.read(12).ok() == Some(disc as u32), "ROLE:qr-discriminator-roundtrip");
    vassert!(rd.read(27).ok() == Some(pass), "ROLE:qr-passcode-roundtrip");
    vassert!(rd.read(4).ok() == Some(0), "ROLE:qr-padding-is-zero");
    vcover!(pass == (1 << 27) - 1 && disc == 0xfff);
}
