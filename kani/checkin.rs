//! C12 (check-in counter) and C17 (check-in message framing) harnesses, mounted into
//! rs-matter/src/sc/checkin.rs.
#![allow(unused_imports, dead_code)]
use super::*;
use crate::verif_support::*;
use crate::{vassert, vcover, vok};

/// Representation invariant of a counter that the application drives as documented
/// (persist after `new`, persist whatever `advance`/`advance_by` return): the durable boundary
/// is `next_epoch`, and it lies 1..=epoch ahead of the last value used (mod 2^32).
fn any_counter() -> (CheckInCounter, u32) {
    let value = any_u32();
    let epoch = any_u32();
    assume(epoch != 0);
    let d = any_u32();
    assume(d >= 1 && d <= epoch);
    let c = CheckInCounter {
        value,
        next_epoch: value.wrapping_add(d),
        epoch,
    };
    (c, c_persisted(value, d))
}
fn c_persisted(value: u32, d: u32) -> u32 {
    value.wrapping_add(d)
}

/// P1: `new` establishes the invariant; the value it will hand out first is covered once the
/// caller has persisted `persist_value()` as documented.
#[cfg_attr(kani, kani::proof)]
#[cfg_attr(not(kani), test)]
fn c12_q_checkin_new_establishes_inv() {
    let start = any_u32();
    let epoch = any_u32();
    assume(epoch != 0);
    let c = CheckInCounter::new(start, epoch);
    let d = c.persist_value().wrapping_sub(c.value);
    vassert!(d >= 1 && d <= epoch, "ROLE:checkin-new-boundary-ahead-by-1..epoch");
    // resumes exactly at the stored boundary of the previous run => past everything used there
    vassert!(c.value == start, "ROLE:checkin-resumes-at-stored-boundary");
    vassert!(c.next() == start.wrapping_add(1), "ROLE:checkin-first-value-after-boundary");
}

/// P1 step `advance`: the value consumed was strictly inside (last, durable boundary]; the
/// invariant is re-established; the boundary handed back for persisting is the one kept.
#[cfg_attr(kani, kani::proof)]
#[cfg_attr(not(kani), test)]
fn c12_q_checkin_step_advance() {
    let (mut c, durable) = any_counter();
    let epoch = c.epoch;
    let last = c.value;
    let used = c.next();
    // `used` goes on the wire now: it must be covered by what is durable *now*:
    // forward distance last -> used (=1) <= forward distance last -> durable
    vassert!(
        used.wrapping_sub(last) <= durable.wrapping_sub(last),
        "ROLE:checkin-used-value-covered-by-durable-boundary"
    );
    let p = c.advance();
    vassert!(c.value == used, "ROLE:checkin-advance-consumes-next");
    let d = c.next_epoch.wrapping_sub(c.value);
    vassert!(d >= 1 && d <= epoch, "ROLE:checkin-inv-preserved");
    match p {
        Some(b) => {
            vcover!(true);
            vassert!(b == c.next_epoch && b == c.persist_value(), "ROLE:checkin-returned-boundary-is-kept");
            vassert!(used == durable, "ROLE:checkin-persist-demanded-exactly-at-boundary");
        }
        None => {
            vcover!(true);
            vassert!(c.next_epoch == durable, "ROLE:checkin-no-persist-boundary-unchanged");
        }
    }
    // a restart now (boundary persisted as told) resumes at next_epoch: first value next_epoch+1
    // lies strictly after `used`
    let resumed = CheckInCounter::new(c.persist_value(), epoch);
    let fwd = resumed.next().wrapping_sub(used);
    vassert!(fwd >= 1 && fwd <= epoch.wrapping_add(1) || epoch == u32::MAX, "ROLE:checkin-restart-resumes-past-used");
}

/// P1 step `advance_by(delta)`.
#[cfg_attr(kani, kani::proof)]
#[cfg_attr(not(kani), test)]
fn c12_q_checkin_step_advance_by() {
    let (mut c, durable) = any_counter();
    let epoch = c.epoch;
    let last = c.value;
    let delta = any_u32();
    let p = c.advance_by(delta);
    vassert!(c.value == last.wrapping_add(delta), "ROLE:checkin-advance-by-moves-by-delta");
    match p {
        Some(b) => {
            vcover!(true);
            vassert!(b == c.next_epoch, "ROLE:checkin-returned-boundary-is-kept");
            vassert!(c.next_epoch.wrapping_sub(c.value) == epoch, "ROLE:checkin-reanchored-one-epoch-ahead");
        }
        None => {
            vcover!(delta > 0);
            vassert!(c.next_epoch == durable, "ROLE:checkin-no-persist-boundary-unchanged");
            // stayed strictly below the durable boundary
            vassert!(delta < durable.wrapping_sub(last), "ROLE:checkin-small-jump-stays-covered");
        }
    }
    let d = c.next_epoch.wrapping_sub(c.value);
    vassert!(d >= 1 && d <= epoch, "ROLE:checkin-inv-preserved");
}

/// P2: schedules of 5 operations {use, jump, crash+restart} from any start (incl. the u32
/// wrap), the application persisting exactly what the interface tells it to. All values that
/// were used on the wire are pairwise distinct.
#[cfg_attr(kani, kani::proof)]
#[cfg_attr(kani, kani::unwind(7))]
#[cfg_attr(not(kani), test)]
fn c12_q_checkin_schedule5() {
    let start = any_u32();
    let epoch = any_u32();
    assume(epoch >= 1 && epoch <= 4);
    let mut c = CheckInCounter::new(start, epoch);
    let mut durable = c.persist_value(); // documented: persist right after `new`
    let mut wire = [0u32; 5];
    let mut n = 0usize;
    let mut step = 0;
    while step < 5 {
        let op = any_u8();
        if op == 0 {
            // crash + restart from durable storage
            c = CheckInCounter::new(durable, epoch);
            durable = c.persist_value();
        } else if op == 1 {
            let d = any_u32();
            assume(d <= 6);
            if let Some(b) = c.advance_by(d) {
                durable = b;
            }
        } else {
            // send one Check-In: peek, use, advance, persist-if-told *before* the next send
            let v = c.next();
            wire[n] = v;
            n += 1;
            if let Some(b) = c.advance() {
                // crash between `advance` and the store: nothing else was sent in between
                if any_bool() {
                    c = CheckInCounter::new(durable, epoch);
                    durable = c.persist_value();
                } else {
                    durable = b;
                }
            }
        }
        step += 1;
    }
    let mut i = 0;
    while i < n {
        let mut j = i + 1;
        while j < n {
            vassert!(wire[i] != wire[j], "ROLE:checkin-value-never-reused-across-restarts");
            j += 1;
        }
        i += 1;
    }
    vcover!(n == 5);
    vcover!(n >= 2);
}

// ------------------------------------------------------------------------------------------
// C17: Check-In message framing (nonce | counter | app data | tag) with oracle AEAD / HMAC.
// ------------------------------------------------------------------------------------------
#[cfg_attr(kani, kani::proof)]
#[cfg_attr(kani, kani::unwind(44))]
#[cfg_attr(not(kani), test)]
fn c17_q_checkin_generate_parse_roundtrip() {
    use crate::crypto::AEAD_KEY_ZEROED;
    use crate::verif_support::vcrypto::{VerifCrypto, REC};
    let key = AEAD_KEY_ZEROED;
    let ci = CheckIn::new(key.reference());
    let counter = any_u32();
    let app: [u8; 4] = any_bytes::<4>();
    let al = any_usize();
    assume(al <= 4);
    let blen = any_usize();
    assume(blen <= 40);
    let mut buf = [0u8; 40];
    unsafe {
        REC.accept = true;
    }
    let r = ci.generate(VerifCrypto, counter, &app[..al], &mut buf[..blen]);
    let need = CheckIn::payload_len(al);
    vassert!(need == 13 + 4 + 16 + al, "ROLE:checkin-payload-length-formula");
    vassert!(r.is_ok() == (blen >= need), "ROLE:checkin-generate-needs-exactly-payload-len");
    let len = match r {
        Ok(p) => p.len(),
        Err(_) => return,
    };
    vassert!(len == need, "ROLE:checkin-generated-length");
    let parsed = vok!(ci.parse(VerifCrypto, &mut buf[..len]), "parse-own-message");
    vassert!(parsed.counter == counter, "ROLE:checkin-counter-roundtrip");
    vassert!(parsed.app_data.len() == al, "ROLE:checkin-app-data-roundtrip");
    let mut i = 0;
    while i < al {
        vassert!(parsed.app_data[i] == app[i], "ROLE:checkin-app-data-roundtrip");
        i += 1;
    }
    vcover!(al == 4);
    vcover!(al == 0);
}

/// Arbitrary <= 40 bytes offered to `parse`: value or error, never a panic; too short is an
/// error; a rejecting AEAD is an error; a nonce that does not belong to the counter is an error.
#[cfg_attr(kani, kani::proof)]
#[cfg_attr(kani, kani::unwind(44))]
#[cfg_attr(not(kani), test)]
fn c17_q_checkin_parse_safe() {
    use crate::crypto::AEAD_KEY_ZEROED;
    use crate::verif_support::vcrypto::{VerifCrypto, REC};
    let key = AEAD_KEY_ZEROED;
    let ci = CheckIn::new(key.reference());
    let mut buf: [u8; 40] = any_bytes::<40>();
    let orig = buf;
    let n = any_usize();
    assume(n <= 40);
    let accept = any_bool();
    unsafe {
        REC.accept = accept;
    }
    let r = ci.parse(VerifCrypto, &mut buf[..n]);
    if n < 33 {
        vcover!(true);
        vassert!(r.is_err(), "ROLE:checkin-too-short-refused");
    }
    if !accept {
        vassert!(r.is_err(), "ROLE:checkin-authentication-failure-refused");
    }
    if let Ok(p) = r {
        vcover!(true);
        vassert!(p.app_data.len() == n - 33, "ROLE:checkin-app-data-length");
        // the nonce sent must be the one derived from the counter (oracle HMAC is a function)
        let exp = crate::verif_support::vcrypto::oracle_hmac(&p.counter.to_le_bytes());
        let mut i = 0;
        while i < 13 {
            vassert!(orig[i] == exp[i], "ROLE:checkin-nonce-must-match-counter");
            i += 1;
        }
    }
}
