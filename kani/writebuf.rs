//! Solver harnesses mounted into rs-matter/src/utils/storage/writebuf.rs
#![allow(unused_imports, dead_code)]
use super::*;
