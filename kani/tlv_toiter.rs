//! Solver harnesses mounted into rs-matter/src/tlv/toiter.rs
#![allow(unused_imports, dead_code)]
use super::*;
