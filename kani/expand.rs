//! C06 - path expansion (`PathExpander`), mounted into rs-matter/src/im/expand.rs.
//! `AccessReq::allow` is a recording oracle; the node is a small fixed composition with
//! symbolic ids / access words; the request path is symbolic.
#![allow(unused_imports, dead_code, static_mut_refs)]
use super::*;
use crate::acl::verif_kani_acl::{allow_oracle, oracle_reset, uninit_matter, ORACLE_CALLS, ORACLE_PATH, ORACLE_PERMS};
use crate::acl::{AccessReq, Accessor, AccessorSubjects, AuthMode};
use crate::dm::{Access, Attribute, Cluster, DeviceType, Endpoint, Quality};
use crate::verif_support::*;
use crate::{vassert, vcover, vok};

/// A read item that expands to the concrete path itself.
#[derive(Clone)]
struct VPath(GenericPath);
fn vp(e: Option<u16>, c: Option<u32>, l: Option<u32>) -> VPath {
    VPath(GenericPath::new(e, c, l))
}
impl<'a> PathExpansionItem<'a> for VPath {
    const OPERATION: Operation = Operation::Read;
    type Expanded<'n> = GenericPath;
    type Status = IMStatusCode;
    fn path(&self) -> GenericPath {
        self.0.clone()
    }
    fn expand(&self, _a: &Accessor<'_>, e: EndptId, c: ClusterId, l: u32, _arr: bool) -> Result<Self::Expanded<'a>, Error> {
        Ok(GenericPath::new(Some(e), Some(c), Some(l)))
    }
    fn into_status(self, status: IMStatusCode) -> Self::Status {
        status
    }
}

/// Concrete read path against a node {endpoint 0: cluster 10: attributes 0 and 1 (readable)}.
/// A leaf is emitted iff it exists, equals the request and the (single) permission check said
/// yes; otherwise the status names the first missing level; nothing else is emitted.
#[cfg_attr(kani, kani::proof)]
#[cfg_attr(kani, kani::unwind(5))]
#[cfg_attr(kani, kani::stub(AccessReq::allow, allow_oracle))]
#[cfg_attr(not(kani), test)]
#[cfg_attr(not(kani), ignore)]
fn c06_q_expand_concrete_read_path() {
    // attribute 1 is write-only (not readable)
    let acc1: u16 = Access::WA.bits();
    let a0 = [
        Attribute::new(0, Access::RV, Quality::NONE),
        Attribute::new(1, Access::WA, Quality::NONE),
    ];
    let cl0 = [Cluster::new(10, 1, 0, &a0, &[], &[], |_, _, _| true, |_, _, _| true, |_, _, _| true)];
    let dts = [DeviceType { dtype: 0, drev: 0 }];
    let eps = [Endpoint::new(0, &dts, &cl0)];
    let node = Node::new(&eps);
    let accessor = Accessor::new(1, false, AccessorSubjects::new(5), Some(AuthMode::Case), uninit_matter());
    let (pe, pc, pl) = (any_u16(), any_u32(), any_u32());
    let paths = [vp(Some(pe), Some(pc), Some(pl))];
    let ans = any_bool();
    oracle_reset([ans; 4]);
    let mut ex = PathExpander::new(&accessor, false, Some(paths.iter().cloned().map(Ok)), |_, _, _| true);
    let first = ex.next(&node);
    let exists = pe == 0 && pc == 10 && pl <= 1;
    let readable = pl == 0 || (pl == 1 && acc1 & 0x10 != 0);
    unsafe {
        match first {
            Some(Ok(Ok(p))) => {
                vcover!(pl == 0);
                vassert!(p.endpoint == Some(pe) && p.cluster == Some(pc) && p.leaf == Some(pl), "ROLE:emitted-leaf-is-the-requested-one");
                vassert!(exists, "ROLE:only-existing-leaves-are-emitted");
                vassert!(ORACLE_CALLS == 1 && ans, "ROLE:leaf-emitted-only-after-one-positive-permission-check");
                vassert!(ORACLE_PATH == (Some(pe), Some(pc), Some(pl)), "ROLE:permission-check-sees-the-concrete-path");
                vassert!(ORACLE_PERMS == if pl == 0 { Access::RV.bits() } else { Access::from_bits_truncate(acc1).bits() }, "ROLE:permission-check-sees-the-declared-access");
                vassert!(readable, "ROLE:element-must-support-the-operation");
            }
            Some(Ok(Err(st))) => {
                if pe != 0 {
                    vassert!(matches!(st, IMStatusCode::UnsupportedEndpoint), "ROLE:absent-endpoint-yields-UnsupportedEndpoint");
                } else if pc != 10 {
                    vassert!(matches!(st, IMStatusCode::UnsupportedCluster), "ROLE:absent-cluster-yields-UnsupportedCluster");
                } else if pl > 1 {
                    vcover!(true);
                    vassert!(matches!(st, IMStatusCode::UnsupportedAttribute), "ROLE:absent-attribute-yields-UnsupportedAttribute");
                } else if !readable {
                    vassert!(matches!(st, IMStatusCode::UnsupportedRead) && ORACLE_CALLS == 0, "ROLE:unreadable-attribute-yields-UnsupportedRead");
                } else {
                    vcover!(true);
                    vassert!(matches!(st, IMStatusCode::UnsupportedAccess) && ORACLE_CALLS == 1 && !ans, "ROLE:not-permitted-yields-UnsupportedAccess");
                }
                if !exists {
                    vassert!(ORACLE_CALLS == 0, "ROLE:absent-path-has-no-effect");
                }
            }
            Some(Err(_)) => vassert!(false, "ROLE:NEVER:expansion-of-a-well-formed-path-does-not-fail"),
            None => vassert!(false, "ROLE:NEVER:concrete-path-always-yields-a-leaf-or-a-status"),
        }
    }
}

/// The last-authorised cache only ever skips the permission check for the IDENTICAL triple.
#[cfg_attr(kani, kani::proof)]
#[cfg_attr(kani, kani::unwind(5))]
#[cfg_attr(kani, kani::stub(AccessReq::allow, allow_oracle))]
#[cfg_attr(not(kani), test)]
#[cfg_attr(not(kani), ignore)]
fn c06_x_expand_cache_only_for_identical_path() {
    let a0 = [Attribute::new(0, Access::RV, Quality::NONE), Attribute::new(1, Access::RV, Quality::NONE)];
    let cl0 = [Cluster::new(10, 1, 0, &a0, &[], &[], |_, _, _| true, |_, _, _| true, |_, _, _| true)];
    let dts = [DeviceType { dtype: 0, drev: 0 }];
    let eps = [Endpoint::new(0, &dts, &cl0)];
    let node = Node::new(&eps);
    let accessor = Accessor::new(1, false, AccessorSubjects::new(5), Some(AuthMode::Case), uninit_matter());
    let l1 = any_u32();
    let l2 = any_u32();
    assume(l1 <= 1 && l2 <= 1);
    let paths = [vp(Some(0), Some(10), Some(l1)), vp(Some(0), Some(10), Some(l2))];
    let ans2 = any_bool();
    oracle_reset([true, ans2, false, false]);
    let mut ex = PathExpander::new(&accessor, false, Some(paths.iter().cloned().map(Ok)), |_, _, _| true);
    let r1 = ex.next(&node);
    vassert!(matches!(r1, Some(Ok(Ok(_)))), "ROLE:permitted-leaf-is-emitted");
    let r2 = ex.next(&node);
    unsafe {
        if l1 == l2 {
            vcover!(true);
            vassert!(ORACLE_CALLS == 1, "ROLE:repeated-identical-path-reuses-the-authorisation");
            vassert!(matches!(r2, Some(Ok(Ok(_)))), "ROLE:repeated-identical-path-reuses-the-authorisation");
        } else {
            vcover!(true);
            vassert!(ORACLE_CALLS == 2, "ROLE:different-path-is-checked-again");
            vassert!(matches!(r2, Some(Ok(Ok(_)))) == ans2, "ROLE:different-path-is-checked-again");
        }
    }
}

/// Wildcard attribute on a concrete cluster (2 leaves): emitted set = permitted leaves, the
/// rest silently omitted, no status.
#[cfg_attr(kani, kani::proof)]
#[cfg_attr(kani, kani::unwind(6))]
#[cfg_attr(kani, kani::stub(AccessReq::allow, allow_oracle))]
#[cfg_attr(not(kani), test)]
#[cfg_attr(not(kani), ignore)]
fn c06_x_expand_wildcard_leaf() {
    let acc1 = any_u16();
    let a0 = [
        Attribute::new(0, Access::RV, Quality::NONE),
        Attribute::new(1, Access::from_bits_truncate(acc1), Quality::NONE),
    ];
    let cl0 = [Cluster::new(10, 1, 0, &a0, &[], &[], |_, _, _| true, |_, _, _| true, |_, _, _| true)];
    let dts = [DeviceType { dtype: 0, drev: 0 }];
    let eps = [Endpoint::new(0, &dts, &cl0)];
    let node = Node::new(&eps);
    let accessor = Accessor::new(1, false, AccessorSubjects::new(5), Some(AuthMode::Case), uninit_matter());
    let paths = [vp(Some(0), Some(10), None)];
    let ans = [any_bool(), any_bool(), false, false];
    oracle_reset(ans);
    let mut ex = PathExpander::new(&accessor, false, Some(paths.iter().cloned().map(Ok)), |_, _, _| true);
    let readable1 = acc1 & 0x10 != 0;
    // expected: leaf 0 iff ans[0]; leaf 1 iff readable1 && (its oracle answer)
    let mut got0 = false;
    let mut got1 = false;
    let mut n = 0;
    loop {
        match ex.next(&node) {
            None => break,
            Some(Ok(Ok(p))) => {
                if p.leaf == Some(0) {
                    vassert!(!got0, "ROLE:wildcard-emits-each-leaf-at-most-once");
                    got0 = true;
                } else {
                    vassert!(p.leaf == Some(1) && !got1, "ROLE:wildcard-emits-each-leaf-at-most-once");
                    got1 = true;
                }
                n += 1;
                vassert!(n <= 2, "ROLE:wildcard-expansion-terminates");
            }
            Some(Ok(Err(_))) => vassert!(false, "ROLE:NEVER:wildcard-omits-silently(no status)"),
            Some(Err(_)) => vassert!(false, "ROLE:NEVER:expansion-of-a-well-formed-path-does-not-fail"),
        }
    }
    vassert!(got0 == ans[0], "ROLE:wildcard-emits-exactly-the-permitted-leaves");
    let exp1 = readable1 && ans[1];
    vassert!(got1 == exp1, "ROLE:wildcard-emits-exactly-the-permitted-leaves");
    vcover!(got0 && got1);
    vcover!(!got0 && !got1);
}

/// The one-entry "last authorised" cache as an inductive step (two consecutive `next()` calls on
/// a repeated path did not finish in 600 s): ONE `next()` on a concrete path P from an ARBITRARY
/// cache content.
///  * cache == P: the leaf is emitted without a permission check (the documented reuse);
///  * otherwise exactly one check decides, and
///  * afterwards the cache holds P only if P was emitted - a denied or refused leaf is never
///    remembered as authorised (so "cache == P => P was authorised earlier in this expansion"
///    is preserved by every step, from the empty cache the expander starts with).
#[cfg_attr(kani, kani::proof)]
#[cfg_attr(kani, kani::unwind(5))]
#[cfg_attr(kani, kani::stub(AccessReq::allow, allow_oracle))]
#[cfg_attr(not(kani), test)]
#[cfg_attr(not(kani), ignore)]
fn c06_q_expand_cache_holds_only_authorised() {
    let a0 = [Attribute::new(0, Access::RV, Quality::NONE), Attribute::new(1, Access::RV, Quality::NONE)];
    let cl0 = [Cluster::new(10, 1, 0, &a0, &[], &[], |_, _, _| true, |_, _, _| true, |_, _, _| true)];
    let dts = [DeviceType { dtype: 0, drev: 0 }];
    let eps = [Endpoint::new(0, &dts, &cl0)];
    let node = Node::new(&eps);
    let accessor = Accessor::new(1, false, AccessorSubjects::new(5), Some(AuthMode::Case), uninit_matter());
    let paths = [vp(Some(0), Some(10), Some(0))];
    let ans = any_bool();
    oracle_reset([ans; 4]);
    let mut ex = PathExpander::new(&accessor, false, Some(paths.iter().cloned().map(Ok)), |_, _, _| true);
    let pre: Option<(EndptId, ClusterId, u32)> = if any_bool() { Some((any_u16(), any_u32(), any_u32())) } else { None };
    ex.last_authorized = pre;
    let hit = pre == Some((0, 10, 0));
    let r = ex.next(&node);
    let emitted = matches!(r, Some(Ok(Ok(_))));
    unsafe {
        if hit {
            vcover!(true);
            vassert!(emitted && ORACLE_CALLS == 0, "ROLE:repeated-identical-path-reuses-the-authorisation");
        } else {
            vcover!(pre.is_some());
            vassert!(ORACLE_CALLS == 1 && emitted == ans, "ROLE:different-path-is-checked-again");
        }
    }
    let post_is_p = ex.last_authorized == Some((0, 10, 0));
    vassert!(!post_is_p || emitted, "ROLE:denial-is-never-remembered-as-authorisation");
    vassert!(!emitted || post_is_p, "ROLE:authorised-leaf-is-remembered-for-an-immediate-repeat");
}
