//! C17 - Bluetooth advertisement payloads. Mounted into
//! rs-matter/src/transport/network/btp/gatt.rs.
#![allow(unused_imports, dead_code)]
use super::*;
use crate::verif_support::*;
use crate::{vassert, vcover, vok};

/// Reference walker over AD structures: offset and length of the payload that follows the
/// 0xFFF6 UUID of the first well-formed "service data - 16 bit UUID" structure.
fn ref_matter_service_data(b: &[u8]) -> Option<(usize, usize)> {
    let mut i = 0;
    while i < b.len() {
        let len = b[i] as usize;
        if len == 0 || i + 1 + len > b.len() {
            return None;
        }
        if b[i + 1] == 0x16 && len >= 3 && b[i + 2] == 0xf6 && b[i + 3] == 0xff {
            return Some((i + 4, len - 3));
        }
        i += 1 + len;
    }
    None
}

/// The commissionable advertisement: every (vendor, product, discriminator, additional-data
/// flag) is emitted as the 15-byte flags + service-data blob of the spec and parsed back to the
/// same value, also when another AD structure of 2..=4 bytes precedes it.
#[cfg_attr(kani, kani::proof)]
#[cfg_attr(kani, kani::unwind(22))]
#[cfg_attr(not(kani), test)]
fn c17_q_ble_adv_emit_parse_roundtrip() {
    let disc = any_u16();
    assume(disc < 0x1000);
    let a = AdvData { vid: any_u16(), pid: any_u16(), discriminator: disc, additional_data: any_bool() };
    let mut b = [0u8; 20];
    // optional foreign structure in front
    let pre = any_usize();
    assume(pre == 0 || (pre >= 2 && pre <= 4));
    let mut n = 0;
    if pre > 0 {
        b[0] = (pre - 1) as u8;
        b[1] = any_u8();
        assume(b[1] != 0x16 || pre < 4);
        let mut k = 2;
        while k < pre {
            b[k] = any_u8();
            k += 1;
        }
        n = pre;
    }
    let start = n;
    for x in a.iter() {
        vassert!(n < 20, "ROLE:ble-adv-length");
        b[n] = x;
        n += 1;
    }
    vassert!(n - start == 15, "ROLE:ble-adv-length");
    vassert!(b[start] == 2 && b[start + 1] == 1 && b[start + 2] == 6, "ROLE:ble-adv-flags-structure");
    vassert!(b[start + 3] == 11 && b[start + 4] == 0x16 && b[start + 5] == 0xf6 && b[start + 6] == 0xff, "ROLE:ble-adv-service-data-header");
    vassert!(AdvData::parse_adv(&b[..n]) == Some(a), "ROLE:ble-adv-roundtrip");
    vassert!(RecoveryAdvData::parse_adv(&b[..n]).is_none(), "ROLE:commissionable-adv-is-not-a-recovery-adv");
    vcover!(pre == 4 && disc == 0xfff);
}

/// The network-recovery advertisement round trip.
#[cfg_attr(kani, kani::proof)]
#[cfg_attr(kani, kani::unwind(22))]
#[cfg_attr(not(kani), test)]
fn c17_q_ble_recovery_adv_emit_parse_roundtrip() {
    let a = RecoveryAdvData { recovery_id: any_bytes::<8>(), additional_data: any_bool() };
    let mut b = [0u8; 20];
    let mut n = 0;
    for x in a.iter() {
        vassert!(n < 20, "ROLE:ble-recovery-adv-length");
        b[n] = x;
        n += 1;
    }
    vassert!(n == 18, "ROLE:ble-recovery-adv-length");
    vassert!(RecoveryAdvData::parse_adv(&b[..n]) == Some(a), "ROLE:ble-recovery-adv-roundtrip");
    vassert!(AdvData::parse_adv(&b[..n]).is_none(), "ROLE:recovery-adv-is-not-a-commissionable-adv");
}

/// Both advertisement decoders on every byte string <= 16: a value or None, never a panic, and
/// the decision equals the reference walk (first well-formed 0x16/0xFFF6 structure; opcode 0,
/// >= 8 payload bytes for the commissionable form; opcode 1, >= 11 for the recovery form).
#[cfg_attr(kani, kani::proof)]
#[cfg_attr(kani, kani::unwind(18))]
#[cfg_attr(not(kani), test)]
fn c17_q_ble_adv_parse_equals_reference_16() {
    let b: [u8; 16] = any_bytes::<16>();
    let n = any_usize();
    assume(n <= 16);
    let s = &b[..n];
    let r = AdvData::parse_adv(s);
    let rr = RecoveryAdvData::parse_adv(s);
    match ref_matter_service_data(s) {
        Some((off, len)) => {
            vcover!(len == 8 && b[off] == 0);
            vcover!(len == 11);
            let want = len >= 8 && b[off] == 0;
            vassert!(r.is_some() == want, "ROLE:ble-adv-accepted-iff-commissionable-service-data");
            if let Some(a) = r {
                vassert!(a.discriminator == (b[off + 1] as u16 | ((b[off + 2] as u16) << 8)) & 0x0fff, "ROLE:ble-adv-discriminator-decoded");
                vassert!(a.vid == b[off + 3] as u16 | ((b[off + 4] as u16) << 8), "ROLE:ble-adv-vid-decoded");
                vassert!(a.pid == b[off + 5] as u16 | ((b[off + 6] as u16) << 8), "ROLE:ble-adv-pid-decoded");
                vassert!(a.additional_data == (b[off + 7] & 1 != 0), "ROLE:ble-adv-additional-data-flag-decoded");
            }
            vassert!(rr.is_some() == (len >= 11 && b[off] == 1), "ROLE:ble-recovery-adv-accepted-iff-recovery-service-data");
        }
        None => {
            vcover!(n == 16);
            vassert!(r.is_none() && rr.is_none(), "ROLE:ble-adv-without-matter-service-data-refused");
        }
    }
}
