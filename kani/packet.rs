//! Solver harnesses mounted into rs-matter/src/transport/packet.rs
#![allow(unused_imports, dead_code)]
use super::*;
