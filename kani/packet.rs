//! C03 (what exactly is authenticated) and C17 (header round trips), mounted into
//! rs-matter/src/transport/packet.rs.
#![allow(unused_imports, dead_code, static_mut_refs)]
use super::*;
use crate::crypto::{CanonAeadKey, AEAD_KEY_ZEROED};
use crate::transport::plain_hdr::PlainHdr;
use crate::transport::proto_hdr::ProtoHdr;
use crate::verif_support::vcrypto::{VerifCrypto, REC};
use crate::verif_support::*;
use crate::{vassert, vcover, vok};

/// P6 (recording oracle): decoding ANY datagram of <= 40 bytes under a session key hands the
/// AEAD exactly: the session's key, nonce = security flags | counter | the SESSION's peer node
/// id (not anything claimed by the packet), AAD = every byte that precedes the ciphertext
/// (= the whole unencrypted header), ciphertext = all remaining bytes. A rejecting oracle
/// yields Err.
#[cfg_attr(kani, kani::proof)]
#[cfg_attr(kani, kani::unwind(42))]
#[cfg_attr(not(kani), test)]
fn c03_q_decode_authenticates_whole_header() {
    let mut buf: [u8; 40] = any_bytes::<40>();
    let orig = buf;
    let n = any_usize();
    assume(n <= 40);
    let mut key = AEAD_KEY_ZEROED;
    let k0 = any_u8();
    key.access_mut()[0] = k0;
    let peer = any_u64();
    let accept = any_bool();
    unsafe {
        REC.accept = accept;
        REC.dec_calls = 0;
        REC.enc_calls = 0;
    }
    let mut hdr = PacketHdr::new();
    let mut pb = ParseBuf::new(&mut buf[..n]);
    if hdr.decode_plain_hdr(&mut pb).is_ok() {
        let hlen = pb.read_off();
        vassert!(hlen >= 8 && hlen <= 24 && hlen <= n, "ROLE:plain-header-length-in-range");
        let r = hdr.decode_remaining(VerifCrypto, Some(key.reference()), peer, &mut pb);
        unsafe {
            vassert!(REC.dec_calls == 1 && REC.enc_calls == 0, "ROLE:aead-consulted-exactly-once");
            vassert!(REC.key0 == k0, "ROLE:decrypt-uses-the-session-key");
            vassert!(REC.aad_len == hlen, "ROLE:aad-is-the-complete-plain-header");
            let mut j = 0;
            while j < hlen {
                vassert!(REC.aad[j] == orig[j], "ROLE:aad-is-the-complete-plain-header");
                j += 1;
            }
            vassert!(REC.data_len == n - hlen, "ROLE:ciphertext-is-everything-after-the-header");
            vassert!(REC.nonce[0] == orig[3], "ROLE:nonce-carries-the-security-flags");
            vassert!(REC.nonce[1] == orig[4] && REC.nonce[2] == orig[5] && REC.nonce[3] == orig[6] && REC.nonce[4] == orig[7], "ROLE:nonce-carries-the-message-counter");
            let p = peer.to_le_bytes();
            let mut j = 0;
            while j < 8 {
                vassert!(REC.nonce[5 + j] == p[j], "ROLE:nonce-carries-the-sessions-peer-node-id");
                j += 1;
            }
            if !accept {
                vcover!(true);
                vassert!(r.is_err(), "ROLE:authentication-failure-rejects-the-message");
            }
        }
        vcover!(r.is_ok());
        vcover!(hlen == 24);
    }
}

/// Unsecured (no key): the AEAD is never consulted.
#[cfg_attr(kani, kani::proof)]
#[cfg_attr(kani, kani::unwind(42))]
#[cfg_attr(not(kani), test)]
fn c03_q_decode_plaintext_skips_aead() {
    let mut buf: [u8; 40] = any_bytes::<40>();
    let n = any_usize();
    assume(n <= 40);
    unsafe {
        REC.dec_calls = 0;
    }
    let mut hdr = PacketHdr::new();
    let mut pb = ParseBuf::new(&mut buf[..n]);
    if hdr.decode_plain_hdr(&mut pb).is_ok() {
        let _ = hdr.decode_remaining(VerifCrypto, None, any_u64(), &mut pb);
        unsafe {
            vassert!(REC.dec_calls == 0, "ROLE:no-key-no-decrypt");
        }
        vcover!(true);
    }
}

fn any_plain() -> PlainHdr {
    let mut p = PlainHdr::new();
    p.sess_id = any_u16();
    p.ctr = any_u32();
    p.sec_flags = crate::transport::plain_hdr::SecFlags::from_bits_truncate(any_u8());
    if any_bool() {
        p.set_src_nodeid(Some(any_u64()));
    }
    let k = any_u8();
    assume(k < 3);
    if k == 1 {
        p.set_dst_unicast_nodeid(Some(any_u64()));
    } else if k == 2 {
        p.set_dst_groupcast_nodeid(Some(any_u16()));
    }
    p
}

fn any_proto() -> ProtoHdr {
    let mut h = ProtoHdr::new();
    h.exch_id = any_u16();
    h.proto_id = any_u16();
    h.proto_opcode = any_u8();
    if any_bool() {
        h.set_initiator();
    }
    if any_bool() {
        h.set_reliable();
    }
    if any_bool() {
        h.set_ack(Some(any_u32()));
    }
    if any_bool() {
        h.set_vendor(Some(any_u16()));
    }
    h
}

/// P6 on the sending side + P4: what `PacketHdr::encode` produces is plain header | proto
/// header | payload | tag; the AEAD gets key, nonce = flags | counter | LOCAL node id and
/// AAD = exactly the encoded plain header; decoding it again (identity cipher) yields the
/// same header fields and payload.
fn encode_then_decode_roundtrip<const N: usize, const B: usize>() {
    let mut tx = PacketHdr::new();
    tx.plain = any_plain();
    tx.proto = any_proto();
    let payload: [u8; N] = any_bytes::<N>();
    let pl = any_usize();
    assume(pl <= N);
    let mut key = AEAD_KEY_ZEROED;
    let k0 = any_u8();
    key.access_mut()[0] = k0;
    let local = any_u64();
    unsafe {
        REC.accept = true;
        REC.dec_calls = 0;
        REC.enc_calls = 0;
    }
    let mut buf = [0u8; B];
    let mut wb = WriteBuf::new(&mut buf);
    vok!(wb.reserve(PacketHdr::HDR_RESERVE), "reserve");
    vok!(wb.append(&payload[..pl]), "append");
    vok!(tx.encode(VerifCrypto, Some(key.reference()), local, &mut wb), "encode");
    let start = wb.get_start();
    let end = wb.get_tail();
    unsafe {
        vassert!(REC.enc_calls == 1, "ROLE:aead-consulted-exactly-once");
        vassert!(REC.key0 == k0, "ROLE:encrypt-uses-the-session-key");
        vassert!(REC.nonce[0] == tx.plain.sec_flags.bits(), "ROLE:nonce-carries-the-security-flags");
        let c = tx.plain.ctr.to_le_bytes();
        vassert!(REC.nonce[1] == c[0] && REC.nonce[2] == c[1] && REC.nonce[3] == c[2] && REC.nonce[4] == c[3], "ROLE:nonce-carries-the-message-counter");
        let p = local.to_le_bytes();
        let mut j = 0;
        while j < 8 {
            vassert!(REC.nonce[5 + j] == p[j], "ROLE:nonce-carries-the-local-node-id");
            j += 1;
        }
    }
    // decode what was produced
    let total = end - start;
    let mut rx = PacketHdr::new();
    let mut pb = ParseBuf::new(&mut buf[start..end]);
    vok!(rx.decode_plain_hdr(&mut pb), "decode-plain");
    let hlen = pb.read_off();
    unsafe {
        vassert!(REC.aad_len == hlen, "ROLE:aad-is-the-complete-plain-header");
    }
    vok!(rx.decode_remaining(VerifCrypto, Some(key.reference()), local, &mut pb), "decode-remaining");
    vassert!(rx.plain.sess_id == tx.plain.sess_id && rx.plain.ctr == tx.plain.ctr && rx.plain.sec_flags == tx.plain.sec_flags, "ROLE:plain-header-fields-roundtrip");
    vassert!(rx.plain.get_src_nodeid() == tx.plain.get_src_nodeid(), "ROLE:plain-header-fields-roundtrip");
    vassert!(rx.plain.get_dst_unicast_nodeid() == tx.plain.get_dst_unicast_nodeid() && rx.plain.get_dst_groupcast_nodeid() == tx.plain.get_dst_groupcast_nodeid(), "ROLE:plain-header-fields-roundtrip");
    vassert!(rx.proto.exch_id == tx.proto.exch_id && rx.proto.proto_id == tx.proto.proto_id && rx.proto.proto_opcode == tx.proto.proto_opcode, "ROLE:proto-header-fields-roundtrip");
    vassert!(rx.proto.is_initiator() == tx.proto.is_initiator() && rx.proto.is_reliable() == tx.proto.is_reliable(), "ROLE:proto-header-fields-roundtrip");
    vassert!(rx.proto.get_ack() == tx.proto.get_ack() && rx.proto.get_vendor() == tx.proto.get_vendor(), "ROLE:proto-header-fields-roundtrip");
    let body = pb.as_slice();
    vassert!(body.len() == pl, "ROLE:payload-roundtrip");
    let mut i = 0;
    while i < pl {
        vassert!(body[i] == payload[i], "ROLE:payload-roundtrip");
        i += 1;
    }
    vassert!(total == hlen + 6 + (if tx.proto.get_vendor().is_some() { 2 } else { 0 }) + (if tx.proto.get_ack().is_some() { 4 } else { 0 }) + pl + 16, "ROLE:datagram-length-is-headers+payload+tag");
    vcover!(pl == N && hlen == 24);
    vcover!(pl == 0);
}

#[cfg_attr(kani, kani::proof)]
#[cfg_attr(kani, kani::unwind(66))]
#[cfg_attr(not(kani), test)]
fn c03_q_encode_then_decode_roundtrip() {
    encode_then_decode_roundtrip::<4, 64>();
}

/// thorough: payload <= 16 bytes (one AEAD block boundary and beyond)
#[cfg_attr(kani, kani::proof)]
#[cfg_attr(kani, kani::unwind(82))]
#[cfg_attr(not(kani), test)]
fn c03_t_encode_then_decode_roundtrip_16() {
    encode_then_decode_roundtrip::<17, 80>();
}

/// C17: PlainHdr decode -> encode is the identity on every accepted prefix of 26 bytes, and
/// the decoder never panics.
#[cfg_attr(kani, kani::proof)]
#[cfg_attr(kani, kani::unwind(30))]
#[cfg_attr(not(kani), test)]
fn c17_q_plain_hdr_decode_encode() {
    let b: [u8; 26] = any_bytes::<26>();
    let n = any_usize();
    assume(n <= 26);
    let mut buf = b;
    let mut pb = ParseBuf::new(&mut buf[..n]);
    let mut h = PlainHdr::new();
    if h.decode(&mut pb).is_ok() {
        let used = pb.read_off();
        vassert!(used <= n && used >= 8, "ROLE:decoder-consumes-within-input");
        let mut out = [0u8; 26];
        let mut wb = WriteBuf::new(&mut out);
        vok!(h.encode(&mut wb), "encode");
        let w = wb.as_slice();
        vassert!(w.len() == used, "ROLE:reencode-same-length");
        let mut i = 0;
        while i < used {
            vassert!(w[i] == b[i], "ROLE:reencode-same-bytes");
            i += 1;
        }
        vcover!(used == 24);
        vcover!(used == 8);
    }
}

/// C17: PlainHdr encode -> decode for every field combination.
#[cfg_attr(kani, kani::proof)]
#[cfg_attr(kani, kani::unwind(30))]
#[cfg_attr(not(kani), test)]
fn c17_q_plain_hdr_encode_decode() {
    let p = any_plain();
    let mut out = [0u8; 26];
    let mut wb = WriteBuf::new(&mut out);
    vok!(p.encode(&mut wb), "encode");
    let len = wb.get_tail();
    let mut pb = ParseBuf::new(&mut out[..len]);
    let mut h = PlainHdr::new();
    vok!(h.decode(&mut pb), "decode");
    vassert!(pb.read_off() == len, "ROLE:decoder-consumes-exactly-the-encoding");
    vassert!(h.sess_id == p.sess_id && h.ctr == p.ctr && h.sec_flags == p.sec_flags, "ROLE:plain-header-fields-roundtrip");
    vassert!(h.get_src_nodeid() == p.get_src_nodeid() && h.get_dst_unicast_nodeid() == p.get_dst_unicast_nodeid() && h.get_dst_groupcast_nodeid() == p.get_dst_groupcast_nodeid(), "ROLE:plain-header-fields-roundtrip");
    vcover!(len == 24);
}

/// C17: ProtoHdr (plaintext path) decode -> encode identity on every accepted 14-byte prefix.
#[cfg_attr(kani, kani::proof)]
#[cfg_attr(kani, kani::unwind(18))]
#[cfg_attr(not(kani), test)]
fn c17_q_proto_hdr_decode_encode() {
    let b: [u8; 14] = any_bytes::<14>();
    let n = any_usize();
    assume(n <= 14);
    let mut buf = b;
    let mut pb = ParseBuf::new(&mut buf[..n]);
    let mut h = ProtoHdr::new();
    let plain = PlainHdr::new();
    if h.decrypt_and_decode(VerifCrypto, None, 0, &plain, &mut pb).is_ok() {
        let used = pb.read_off();
        vassert!(used <= n && used >= 6, "ROLE:decoder-consumes-within-input");
        let mut out = [0u8; 14];
        let mut wb = WriteBuf::new(&mut out);
        vok!(h.encode(&mut wb), "encode");
        let w = wb.as_slice();
        vassert!(w.len() == used, "ROLE:reencode-same-length");
        let mut i = 0;
        while i < used {
            vassert!(w[i] == b[i], "ROLE:reencode-same-bytes");
            i += 1;
        }
        vcover!(used == 12);
    }
}
