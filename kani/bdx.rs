//! Solver harnesses mounted into rs-matter/src/bdx.rs
#![allow(unused_imports, dead_code)]
use super::*;
