//! C17 - bulk-transfer (BDX) messages. Mounted into rs-matter/src/bdx.rs.
#![allow(unused_imports, dead_code)]
use super::*;
use crate::verif_support::*;
use crate::{vassert, vcover, vok};

fn same(a: &[u8], b: &[u8]) -> bool {
    if a.len() != b.len() {
        return false;
    }
    let mut i = 0;
    while i < a.len() {
        if a[i] != b[i] {
            return false;
        }
        i += 1;
    }
    true
}

fn any_tc() -> TransferControl {
    TransferControl { version: any_u8() & 0x0f, sender_drive: any_bool(), receiver_drive: any_bool(), async_mode: any_bool() }
}

fn any_rc() -> RangeControl {
    RangeControl { def_len: any_bool(), start_offset: any_bool(), wide_range: any_bool() }
}

/// SendInit / ReceiveInit: every field combination (all 8 range-control forms, designator of
/// 0..=3 bytes, metadata of 0..=2 bytes) is written and parsed back to the same fields; offsets
/// and lengths are carried in full when the wide form is chosen and modulo 2^32 otherwise.
#[cfg_attr(kani, kani::proof)]
#[cfg_attr(kani, kani::unwind(10))]
#[cfg_attr(not(kani), test)]
fn c17_q_bdx_init_write_parse_roundtrip() {
    let fd: [u8; 3] = any_bytes::<3>();
    let md: [u8; 2] = any_bytes::<2>();
    let (fl, ml) = (any_usize(), any_usize());
    assume(fl <= 3 && ml <= 2);
    let m = TransferInit {
        transfer_control: any_tc(),
        range_control: any_rc(),
        max_block_size: any_u16(),
        start_offset: any_u64(),
        length: any_u64(),
        file_designator: &fd[..fl],
        metadata: &md[..ml],
    };
    let mut buf = [0u8; 32];
    let mut wb = WriteBuf::new(&mut buf);
    vok!(m.write(&mut wb), "init-write-fits");
    let n = wb.get_tail();
    let rc = m.range_control;
    let w = if rc.wide_range { 8 } else { 4 };
    let want_len = 4 + if rc.start_offset { w } else { 0 } + if rc.def_len { w } else { 0 } + 2 + fl + ml;
    vassert!(n == want_len, "ROLE:bdx-init-encoded-length");
    let p = vok!(TransferInit::parse(&buf[..n]), "ROLE-own-encoding-parses");
    vassert!(p.transfer_control == m.transfer_control && p.range_control == rc, "ROLE:bdx-init-control-bytes-roundtrip");
    vassert!(p.max_block_size == m.max_block_size, "ROLE:bdx-init-block-size-roundtrip");
    let so = if !rc.start_offset { 0 } else if rc.wide_range { m.start_offset } else { m.start_offset as u32 as u64 };
    let ln = if !rc.def_len { 0 } else if rc.wide_range { m.length } else { m.length as u32 as u64 };
    vassert!(p.start_offset == so, "ROLE:bdx-init-start-offset-roundtrip");
    vassert!(p.length == ln, "ROLE:bdx-init-length-roundtrip");
    vassert!(same(p.file_designator, &fd[..fl]), "ROLE:bdx-init-designator-roundtrip");
    vassert!(same(p.metadata, &md[..ml]), "ROLE:bdx-init-metadata-roundtrip");
    vcover!(rc.wide_range && rc.start_offset && rc.def_len && fl == 3 && ml == 2);
    vcover!(!rc.wide_range && rc.start_offset && !rc.def_len);
}

/// SendInit / ReceiveInit decoder on every byte string <= 24: a value or an error, never a
/// panic; what parses re-encodes to the same bytes (the reserved control bits, which the
/// decoder drops, excepted) and the slices handed out lie inside the input.
#[cfg_attr(kani, kani::proof)]
#[cfg_attr(kani, kani::unwind(26))]
#[cfg_attr(not(kani), test)]
fn c17_q_bdx_init_parse_safe_and_reencode() {
    let b: [u8; 24] = any_bytes::<24>();
    let n = any_usize();
    assume(n <= 24);
    match TransferInit::parse(&b[..n]) {
        Ok(p) => {
            vcover!(n == 24 && p.file_designator.len() == 1);
            vassert!(n >= 6, "ROLE:bdx-init-shorter-than-fixed-part-refused");
            let mut buf = [0u8; 32];
            let mut wb = WriteBuf::new(&mut buf);
            vok!(p.write(&mut wb), "reencode-fits");
            let m = wb.get_tail();
            vassert!(m == n, "ROLE:bdx-init-reencode-same-length");
            let mut i = 0;
            while i < n {
                let mask = if i == 0 { 0x7f } else if i == 1 { 0x13 } else { 0xff };
                vassert!(buf[i] == b[i] & mask, "ROLE:bdx-init-reencode-same-bytes");
                i += 1;
            }
        }
        Err(_) => {
            vcover!(n > 6);
        }
    }
}

/// SendAccept / ReceiveAccept: write then parse gives the same fields, both wire forms.
#[cfg_attr(kani, kani::proof)]
#[cfg_attr(kani, kani::unwind(10))]
#[cfg_attr(not(kani), test)]
fn c17_q_bdx_accept_write_parse_roundtrip() {
    let md: [u8; 2] = any_bytes::<2>();
    let ml = any_usize();
    assume(ml <= 2);
    let receive = any_bool();
    let m = TransferAccept {
        receive,
        transfer_control: any_tc(),
        range_control: any_rc(),
        max_block_size: any_u16(),
        length: any_u64(),
        metadata: &md[..ml],
    };
    let mut buf = [0u8; 24];
    let mut wb = WriteBuf::new(&mut buf);
    vok!(m.write(&mut wb), "accept-write-fits");
    let n = wb.get_tail();
    let p = vok!(TransferAccept::parse(receive, &buf[..n]), "own-encoding-parses");
    vassert!(p.receive == receive && p.transfer_control == m.transfer_control, "ROLE:bdx-accept-control-roundtrip");
    vassert!(p.max_block_size == m.max_block_size, "ROLE:bdx-accept-block-size-roundtrip");
    if receive {
        let rc = m.range_control;
        vassert!(p.range_control == rc, "ROLE:bdx-accept-range-control-roundtrip");
        let ln = if !rc.def_len { 0 } else if rc.wide_range { m.length } else { m.length as u32 as u64 };
        vassert!(p.length == ln, "ROLE:bdx-accept-length-roundtrip");
        vcover!(rc.def_len && rc.wide_range);
    } else {
        vassert!(p.length == 0 && p.range_control == RangeControl::default(), "ROLE:bdx-send-accept-carries-no-range");
        vassert!(n == 3 + ml, "ROLE:bdx-send-accept-length");
    }
    vassert!(same(p.metadata, &md[..ml]), "ROLE:bdx-accept-metadata-roundtrip");
}

/// The accept / block / query decoders on every byte string <= 16: value or error, no panic;
/// fixed-size messages are refused when truncated and their fields are the little-endian
/// reading of the input.
#[cfg_attr(kani, kani::proof)]
#[cfg_attr(kani, kani::unwind(18))]
#[cfg_attr(not(kani), test)]
fn c17_q_bdx_small_messages_parse_safe() {
    let b: [u8; 16] = any_bytes::<16>();
    let n = any_usize();
    assume(n <= 16);
    let s = &b[..n];
    let ctr = u32::from_le_bytes([b[0], b[1], b[2], b[3]]);
    match Block::parse(s) {
        Ok(p) => {
            vassert!(n >= 4 && p.block_counter == ctr, "ROLE:bdx-block-counter-decoded");
            vassert!(same(p.data, &b[4..n]), "ROLE:bdx-block-data-is-the-rest");
        }
        Err(_) => vassert!(n < 4, "ROLE:bdx-block-well-formed-accepted"),
    }
    match BlockQuery::parse(s) {
        Ok(p) => vassert!(n >= 4 && p.block_counter == ctr, "ROLE:bdx-block-query-decoded"),
        Err(_) => vassert!(n < 4, "ROLE:bdx-block-query-well-formed-accepted"),
    }
    match BlockQueryWithSkip::parse(s) {
        Ok(p) => {
            let skip = u64::from_le_bytes([b[4], b[5], b[6], b[7], b[8], b[9], b[10], b[11]]);
            vassert!(n >= 12 && p.block_counter == ctr && p.bytes_to_skip == skip, "ROLE:bdx-block-query-with-skip-decoded");
        }
        Err(_) => vassert!(n < 12, "ROLE:bdx-block-query-with-skip-well-formed-accepted"),
    }
    let receive = any_bool();
    if let Ok(p) = TransferAccept::parse(receive, s) {
        vcover!(receive && p.range_control.def_len && p.range_control.wide_range);
        let mut buf = [0u8; 24];
        let mut wb = WriteBuf::new(&mut buf);
        vok!(p.write(&mut wb), "reencode-fits");
        vassert!(wb.get_tail() == n, "ROLE:bdx-accept-reencode-same-length");
        let mut i = 0;
        while i < n {
            let mask = if i == 0 { 0x7f } else if i == 1 && receive { 0x13 } else { 0xff };
            vassert!(buf[i] == b[i] & mask, "ROLE:bdx-accept-reencode-same-bytes");
            i += 1;
        }
    }
    // write side of the fixed-size messages
    let q = BlockQueryWithSkip { block_counter: any_u32(), bytes_to_skip: any_u64() };
    let mut buf = [0u8; 12];
    let mut wb = WriteBuf::new(&mut buf);
    vok!(q.write(&mut wb), "skip-write-fits");
    let r = vok!(BlockQueryWithSkip::parse(&buf), "skip-own-encoding-parses");
    vassert!(r == q, "ROLE:bdx-block-query-with-skip-roundtrip");
}
