//! Solver harnesses mounted into rs-matter/src/utils/epoch.rs
#![allow(unused_imports, dead_code)]
use super::*;
