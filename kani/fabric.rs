//! Solver harnesses mounted into rs-matter/src/fabric.rs
#![allow(unused_imports, dead_code)]
use super::*;
