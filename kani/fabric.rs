//! C05 - fabric-level dispatch of the access decision (`Fabrics::allow`). Mounted into
//! rs-matter/src/fabric.rs. The per-entry decision (`AclEntry::allow`) is replaced by a
//! recording oracle here; it is checked against the reference algorithm in kani/acl.rs.
#![allow(unused_imports, dead_code)]
use super::*;
use crate::acl::{AccessReq, Accessor, AccessorSubjects, AclEntry, AuthMode};
use crate::dm::{Access, Privilege};
use crate::im::GenericPath;
use crate::verif_support::*;
use crate::{vassert, vcover, vok};

static mut E_CALLS: u32 = 0;
static mut E_ANS: [bool; 4] = [false; 4];
static mut E_FABS: [u8; 4] = [0; 4];
static mut E_AUX: [bool; 4] = [false; 4];

/// stands in for `AclEntry::allow`: answers from a symbolic table, records which entry (by the
/// fabric index stored in it) was consulted
fn entry_oracle(e: &AclEntry, _req: &AccessReq, aux: bool) -> bool {
    unsafe {
        let k = (E_CALLS % 4) as usize;
        E_CALLS += 1;
        E_FABS[k] = e.fab_idx.map(|f| f.get()).unwrap_or(0);
        E_AUX[k] = aux;
        E_ANS[k]
    }
}

/// Two fabrics (local indices 1 and 2) with 0..=2 entries each; accessor of any auth mode and
/// any fabric index 0..=3:
///  * a passcode-authenticated accessor is allowed without consulting any entry,
///  * an accessor without a fabric, or with an index no fabric has, is denied without
///    consulting any entry,
///  * otherwise only entries stored under the accessor's own fabric are consulted, in order,
///    until one grants; the answer is the disjunction of their answers.
#[cfg_attr(kani, kani::proof)]
#[cfg_attr(kani, kani::unwind(5))]
#[cfg_attr(kani, kani::stub(AclEntry::allow, entry_oracle))]
#[cfg_attr(not(kani), test)]
#[cfg_attr(not(kani), ignore)]
fn c05_q_fabric_dispatch() {
    let mut fabrics = Fabrics::new();
    let (n1, n2) = (any_u8(), any_u8());
    assume(n1 <= 2 && n2 <= 2);
    {
        let f = vok!(fabrics.add_with_post_init(|_| Ok(())), "add-fabric-1");
        let mut i = 0;
        while i < n1 {
            let _ = f.acl.push(AclEntry::new(NonZeroU8::new(1), Privilege::ADMIN, AuthMode::Case));
            i += 1;
        }
    }
    {
        let f = vok!(fabrics.add_with_post_init(|_| Ok(())), "add-fabric-2");
        let mut i = 0;
        while i < n2 {
            let _ = f.acl.push(AclEntry::new(NonZeroU8::new(2), Privilege::ADMIN, AuthMode::Case));
            i += 1;
        }
    }
    let fab = any_u8();
    assume(fab <= 3);
    let mode = crate::acl::verif_kani_acl::any_auth();
    let aux = any_bool();
    let accessor = Accessor::new(fab, aux, AccessorSubjects::new(any_u64()), Some(mode), crate::acl::verif_kani_acl::uninit_matter());
    let req = AccessReq::new(&accessor, GenericPath::new(Some(1), Some(6), Some(0)), Access::READ, &[]);
    let ans = [any_bool(), any_bool(), any_bool(), any_bool()];
    unsafe {
        E_CALLS = 0;
        E_ANS = ans;
    }
    let r = fabrics.allow(&req, aux);
    unsafe {
        if matches!(mode, AuthMode::Pase) {
            vcover!(fab == 0);
            vassert!(r && E_CALLS == 0, "ROLE:passcode-session-is-implicitly-administrator");
        } else if fab == 0 || fab == 3 {
            vcover!(fab == 3);
            vassert!(!r && E_CALLS == 0, "ROLE:accessor-without-existing-fabric-denied");
        } else {
            let n = if fab == 1 { n1 } else { n2 } as usize;
            // expected: consult entries 0.. until the first `true`
            let mut want = false;
            let mut calls = 0;
            while calls < n && !want {
                want = ans[calls];
                calls += 1;
            }
            vcover!(n == 2 && !ans[0] && ans[1]);
            vassert!(r == want, "ROLE:fabric-decision-is-disjunction-of-its-own-entries");
            vassert!(E_CALLS as usize == calls, "ROLE:only-own-fabric-entries-consulted");
            let mut k = 0;
            while k < calls {
                vassert!(E_FABS[k] == fab, "ROLE:entry-of-another-fabric-never-consulted");
                vassert!(E_AUX[k] == aux, "ROLE:auxiliary-acl-setting-passed-through");
                k += 1;
            }
        }
    }
}
