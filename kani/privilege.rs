//! Solver harnesses mounted into rs-matter/src/dm/types/privilege.rs
#![allow(unused_imports, dead_code)]
use super::*;
