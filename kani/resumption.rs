//! Solver harnesses mounted into rs-matter/src/sc/case/resumption.rs
#![allow(unused_imports, dead_code)]
use super::*;
