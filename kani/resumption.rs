//! C07 - CASE resumption cache: records of a removed fabric are purged, others untouched;
//! mounted into rs-matter/src/sc/case/resumption.rs.
#![allow(unused_imports, dead_code)]
use super::*;
use crate::verif_support::*;
use crate::{vassert, vcover, vok};

fn any_record() -> ResumableSession {
    let f = any_u8();
    assume(f != 0);
    ResumableSession {
        fab_idx: NonZeroU8::new(f).unwrap(),
        peer_nodeid: any_u64(),
        peer_cat_ids: [0; 3],
        resumption_id: CaseResumptionId::new(),
        shared_secret: crate::crypto::CanonPkcSharedSecret::new(),
    }
}

#[cfg_attr(kani, kani::proof)]
#[cfg_attr(kani, kani::unwind(5))]
#[cfg_attr(not(kani), test)]
fn c07_q_resumption_purge_for_fabric() {
    let mut rs = ResumableSessions::new();
    let n = any_usize();
    assume(n <= 3);
    let mut fabs = [0u8; 3];
    let mut nodes = [0u64; 3];
    let mut i = 0;
    while i < n {
        let r = any_record();
        fabs[i] = r.fab_idx.get();
        nodes[i] = r.peer_nodeid;
        let _ = rs.records.push(r);
        i += 1;
    }
    let f = any_u8();
    assume(f != 0);
    let fab = NonZeroU8::new(f).unwrap();
    rs.remove_for_fabric(fab);
    // nothing of the removed fabric is left, by either lookup
    vassert!(rs.iter().all(|r| r.fab_idx != fab), "ROLE:no-resumption-record-of-the-removed-fabric-survives");
    let probe = any_u64();
    vassert!(rs.find_by_peer(fab, probe).is_none(), "ROLE:no-resumption-record-of-the-removed-fabric-survives");
    // the records of other fabrics are all still there, in order
    let mut expect = 0;
    let mut i = 0;
    while i < n {
        if fabs[i] != f {
            vassert!(expect < rs.len(), "ROLE:resumption-records-of-other-fabrics-kept");
            let r = &rs.records[expect];
            vassert!(r.fab_idx.get() == fabs[i] && r.peer_nodeid == nodes[i], "ROLE:resumption-records-of-other-fabrics-kept");
            expect += 1;
        }
        i += 1;
    }
    vassert!(rs.len() == expect, "ROLE:resumption-records-of-other-fabrics-kept");
    vcover!(expect > 0 && expect < n);
}
