//! C18 - BTP session harnesses, mounted into rs-matter/src/transport/network/btp/session.rs.
#![allow(unused_imports, dead_code, static_mut_refs)]
use super::*;
use crate::utils::storage::verif_kani_ringbuf::{
    model_free, model_pop, model_pop_byte, model_push, model_reset,
};
use crate::verif_support::*;
use crate::{vassert, vcover, vok};

const PEER: BtAddr = BtAddr([1, 2, 3, 4, 5, 6]);

/// An established session in an arbitrary window state satisfying the representation
/// invariant Inv:
///   recv: level + ack_level == window_size          (slots the peer may still use + slots
///                                                     we owe an ack for)
///   send: level <= window_size                       (window_size - level segments outstanding)
///   window_size >= 1, mtu in [MIN_MTU-3, MAX_MTU-3]
fn any_established(initiator: bool) -> Session {
    let mut s = Session::new();
    s.initiator = initiator;
    let ws = any_u8();
    assume(ws >= 1);
    let mtu = any_u16();
    assume(mtu >= MIN_MTU - GATT_HEADER_SIZE as u16 && mtu <= MAX_MTU - GATT_HEADER_SIZE as u16);
    s.setup(PEER, 4, mtu, ws);
    let rl = any_u8();
    assume(rl <= ws);
    s.recv_window.level = rl;
    s.recv_window.ack_level = ws - rl;
    s.recv_window.ack_seq = any_u8();
    s.recv_window.rem_msg_len = any_u16();
    s.recv_window.buf_messages_ct = any_u8();
    assume(s.recv_window.buf_messages_ct <= 2);
    let sl = any_u8();
    assume(sl <= ws);
    s.send_window.level = sl;
    s.send_window.last_sent_seq_num = any_u8();
    s
}

fn inv(s: &Session) -> bool {
    s.recv_window.level as u16 + s.recv_window.ack_level as u16 == s.window_size as u16
        && s.send_window.level <= s.send_window.window_size
        && s.send_window.window_size == s.window_size
}

/// Hostile step: ANY segment of up to 8 bytes thrown at an established session in ANY
/// Inv-state. `process_rx` returns, never panics/overflows (compiler checks), Inv holds
/// afterwards; protocol violations are errors.
#[cfg_attr(kani, kani::proof)]
#[cfg_attr(kani, kani::unwind(10))]
#[cfg_attr(kani, kani::stub(RingBuf::push, model_push))]
#[cfg_attr(kani, kani::stub(RingBuf::free, model_free))]
#[cfg_attr(kani, kani::stub(embassy_time::Instant::now, crate::verif_support::stub_instant_now))]
#[cfg_attr(not(kani), test)]
fn c18_q_hostile_segment_step() {
    let mut s = any_established(any_bool());
    let used = any_usize();
    assume(used <= MAX_MESSAGE_SIZE);
    #[cfg(kani)]
    model_reset(used);
    #[cfg(not(kani))]
    {
        // native replay runs the real ring buffer: bring it to the same fill level
        let z = [0u8; 64];
        let mut left = used;
        while left > 0 {
            let n = core::cmp::min(left, 64);
            s.recv_window.buf.push(&z[..n]);
            left -= n;
        }
    }
    vassert!(inv(&s), "ROLE:btp-harness-prestate-satisfies-inv");
    let pre_rl = s.recv_window.level;
    let pre_al = s.recv_window.ack_level;
    let pre_seq = s.recv_window.ack_seq;
    let pre_sl = s.send_window.level;
    let pre_last = s.send_window.last_sent_seq_num;
    let ws = s.window_size;

    let data: [u8; 8] = any_bytes::<8>();
    let n = any_usize();
    assume(n <= 8);
    // data segment (handshake segments are a separate harness)
    assume(n == 0 || data[0] & 0x40 == 0);
    let pre_free = s.recv_window.buf.free();
    let r = s.process_rx(None, PEER, &data[..n]);

    // what the segment says, decoded independently from the flag byte
    let flags = if n > 0 { data[0] } else { 0 };
    let has_ack = flags & 0x08 != 0;
    let has_opcode = flags & 0x20 != 0;
    let mut idx = 1usize;
    if has_opcode {
        idx += 1;
    }
    let ack = if has_ack && n > idx { Some(data[idx]) } else { None };
    if has_ack {
        idx += 1;
    }
    let seq = if n > idx { Some(data[idx]) } else { None };

    match r {
        Ok(()) => {
            vcover!(true);
            vassert!(inv(&s), "ROLE:btp-inv-preserved-on-accept");
            vassert!(seq == Some(pre_seq.wrapping_add(1)), "ROLE:btp-accepted-segment-has-next-seq");
            vassert!(pre_rl > 0, "ROLE:btp-accept-only-when-recv-window-has-room");
            // bytes an accepted segment adds to the receive buffer: the 2-byte length prefix of a
            // new non-empty message + its payload - they must fit into what was free, or the ring
            // buffer silently drops its oldest bytes (the framing of an unfetched message)
            let beginning = flags & 0x01 != 0;
            let (prefix, pstart) = if beginning {
                let ml = u16::from_le_bytes([data[idx + 1], data[idx + 2]]);
                (if ml > 0 { 2usize } else { 0 }, idx + 3)
            } else {
                (0usize, idx + 1)
            };
            let pushed = prefix + n.saturating_sub(pstart);
            vassert!(pre_free >= pushed, "ROLE:btp-accepted-segment-fits-the-receive-buffer");
            vassert!(s.recv_window.level == pre_rl - 1 && s.recv_window.ack_level == pre_al + 1, "ROLE:btp-accept-consumes-one-slot");
            if let Some(a) = ack {
                let outstanding = ws - pre_sl;
                let unack = pre_last.wrapping_sub(a);
                vcover!(unack > 0);
                vassert!(unack <= outstanding, "ROLE:btp-ack-of-never-sent-segment-rejected");
                vassert!(s.send_window.level == ws - unack, "ROLE:btp-ack-frees-acknowledged-slots");
            } else {
                vassert!(s.send_window.level == pre_sl, "ROLE:btp-no-ack-keeps-send-window");
            }
        }
        Err(_) => {
            vcover!(seq == Some(pre_seq.wrapping_add(1)));
            vcover!(pre_rl == 0);
            vassert!(inv(&s), "ROLE:btp-inv-preserved-on-reject");
        }
    }
    if seq.is_some() && seq != Some(pre_seq.wrapping_add(1)) {
        vassert!(r.is_err(), "ROLE:btp-wrong-sequence-number-rejected");
    }
    if pre_rl == 0 {
        vassert!(r.is_err(), "ROLE:btp-window-overrun-rejected");
    }
}

/// Sender side: `prep_tx_data` from any Inv-state. A segment is emitted only if the peer's
/// window allows it (never the last slot without a piggy-backed ack), Inv holds afterwards,
/// the pending ack is carried and accounted for.
#[cfg_attr(kani, kani::proof)]
#[cfg_attr(kani, kani::unwind(26))]
#[cfg_attr(kani, kani::stub(embassy_time::Instant::now, crate::verif_support::stub_instant_now))]
#[cfg_attr(not(kani), test)]
fn c18_q_sender_step() {
    let mut s = any_established(any_bool());
    // bound: the two smallest negotiable segment sizes, messages of up to 24 bytes (1-2 segments)
    assume(s.mtu <= 21);
    let pre_sl = s.send_window.level;
    let pre_rl = s.recv_window.level;
    let pre_al = s.recv_window.ack_level;
    let pre_last = s.send_window.last_sent_seq_num;
    let pending = s.recv_window.pending_ack();
    let msg: [u8; 24] = any_bytes::<24>();
    let ml = any_usize();
    assume(ml <= 24);
    let mut off = any_usize();
    assume(off <= ml && (ml > 0 || off == 0));
    assume(off < ml || ml == 0);
    let off0 = off;
    let mut seg = [0u8; 32];
    let n = vok!(s.prep_tx_data(&msg[..ml], &mut off, &mut seg), "harness-setup-call-succeeds");
    if pre_sl == 0 || (pre_sl == 1 && pre_al == 0) {
        vcover!(true);
        vassert!(n == 0, "ROLE:btp-no-send-when-peer-window-full");
        vassert!(s.send_window.level == pre_sl && off == off0, "ROLE:btp-no-send-leaves-state");
    } else {
        vcover!(true);
        vassert!(n > 0 && n <= s.mtu as usize, "ROLE:btp-segment-fits-mtu");
        vassert!(s.send_window.level == pre_sl - 1, "ROLE:btp-send-consumes-one-peer-slot");
        vassert!(s.send_window.last_sent_seq_num == pre_last.wrapping_add(1), "ROLE:btp-sequence-numbers-consecutive");
        vassert!(inv(&s), "ROLE:btp-inv-preserved-on-send");
        // decode what was produced
        let mut it = seg[..n].iter().copied();
        let h = vok!(BtpHdr::from(&mut it), "harness-setup-call-succeeds");
        vassert!(h.get_seq() == Some(pre_last.wrapping_add(1)), "ROLE:btp-sequence-numbers-consecutive");
        vassert!(h.get_ack() == pending, "ROLE:btp-pending-ack-piggybacked");
        if pending.is_some() {
            vassert!(s.recv_window.level == pre_rl + pre_al && s.recv_window.ack_level == 0, "ROLE:btp-ack-reopens-recv-window");
        } else {
            vassert!(s.recv_window.level == pre_rl && s.recv_window.ack_level == pre_al, "ROLE:btp-no-ack-keeps-recv-window");
        }
        let hl = h.len();
        let payload = n - hl;
        vassert!(off == off0 + payload, "ROLE:btp-offset-advances-by-payload");
        let mut i = 0;
        while i < payload {
            vassert!(seg[hl + i] == msg[off0 + i], "ROLE:btp-segment-payload-is-message-slice");
            i += 1;
        }
        if ml > 0 {
            vassert!(h.is_final() == (off == ml), "ROLE:btp-final-flag-iff-last-segment");
            vassert!((h.get_msg_len() == Some(ml as u16)) == (off0 == 0), "ROLE:btp-length-only-on-first-segment");
        }
    }
}

/// Acknowledgement deadline: `is_ack_due` <=> an ack is pending AND (the window is (nearly)
/// closed OR the ack timeout since the last reception has passed).
#[cfg_attr(kani, kani::proof)]
#[cfg_attr(kani, kani::unwind(4))]
#[cfg_attr(not(kani), test)]
fn c18_q_ack_due_predicate() {
    let mut s = any_established(false);
    let recv_at = any_u64();
    let now = any_u64();
    let never = any_bool();
    s.recv_window.received_at = if never { Instant::MAX } else { Instant::from_ticks(recv_at) };
    let tmo = any_u16();
    let due = s.is_ack_due(Instant::from_ticks(now), tmo);
    let pending = s.recv_window.ack_level > 0 && s.recv_window.buf_messages_ct == 0;
    let ticks = tmo as u64 * embassy_time::TICK_HZ;
    let at = if never { u64::MAX } else { recv_at };
    let expired = at.checked_add(ticks).map(|e| e <= now).unwrap_or(false);
    vassert!(due == (pending && (s.recv_window.level <= 1 || expired)), "ROLE:btp-ack-due-iff-pending-and-(window-closing-or-deadline)");
    vcover!(due && s.recv_window.level > 1);
    vcover!(!due && pending);
}

/// Handshake segments from a hostile peer (responder side): arbitrary <= 10 bytes.
#[cfg_attr(kani, kani::proof)]
#[cfg_attr(kani, kani::unwind(12))]
#[cfg_attr(kani, kani::stub(embassy_time::Instant::now, crate::verif_support::stub_instant_now))]
#[cfg_attr(not(kani), test)]
fn c18_q_hostile_handshake_req() {
    let mut s = Session::new();
    s.set_relaxed_mtu_nego(any_bool());
    let data: [u8; 10] = any_bytes::<10>();
    let n = any_usize();
    assume(n <= 10);
    assume(n > 0 && data[0] & 0x40 != 0);
    // the ATT MTU reported by the local BLE stack is trusted to be a legal one (>= 23)
    let gatt = if any_bool() { Some(any_u16()) } else { None };
    assume(gatt.map(|g| g >= MIN_MTU).unwrap_or(true));
    let r = s.process_rx(gatt, PEER, &data[..n]);
    if r.is_ok() {
        vcover!(true);
        vassert!(s.mtu >= MIN_MTU - GATT_HEADER_SIZE as u16 && s.mtu <= MAX_MTU - GATT_HEADER_SIZE as u16, "ROLE:btp-negotiated-mtu-in-range");
        vassert!(s.window_size == s.recv_window.level && s.window_size == s.send_window.level, "ROLE:btp-handshake-opens-both-windows");
        vassert!(inv(&s), "ROLE:btp-inv-established-by-handshake");
        vassert!(data[0] & 0x64 == 0x64 && data[0] & 0x0a == 0, "ROLE:btp-handshake-flags-checked");
        // a window of 0 could never carry data
        vassert!(s.window_size >= 1 || data[8] == 0, "ROLE:btp-window-size-zero-only-if-peer-asked");
        // the response can be produced and accounted
        if s.window_size >= 1 {
            let mut out = [0u8; 16];
            let l = vok!(s.prep_tx_handshake(gatt, &mut out), "harness-setup-call-succeeds");
            vassert!(l == 6, "ROLE:btp-handshake-response-length");
            vassert!(inv(&s), "ROLE:btp-inv-preserved-on-send");
        }
    }
}

/// Two real sessions, abstract FIFO: a message of <= 2 segments (smallest negotiable segment
/// size, 20) goes A -> B and comes out exactly once, intact; B's acknowledgement reopens A's window.
#[cfg_attr(kani, kani::proof)]
#[cfg_attr(kani, kani::unwind(30))]
#[cfg_attr(kani, kani::stub(RingBuf::push, model_push))]
#[cfg_attr(kani, kani::stub(RingBuf::pop, model_pop))]
#[cfg_attr(kani, kani::stub(RingBuf::pop_byte, model_pop_byte))]
#[cfg_attr(kani, kani::stub(RingBuf::free, model_free))]
#[cfg_attr(kani, kani::stub(embassy_time::Instant::now, crate::verif_support::stub_instant_now))]
#[cfg_attr(not(kani), test)]
fn c18_t_transfer_two_segments() {
    let mut a = Session::new();
    let mut b = Session::new();
    let ws = any_u8();
    // (a window of 2 admits one data segment before the peer's acknowledgement is needed - the
    // last slot is reserved for acknowledgements; this scene sends two back to back)
    assume(ws >= 3 && ws <= 6);
    a.setup(PEER, 4, 20, ws);
    b.setup(BtAddr([6, 5, 4, 3, 2, 1]), 4, 20, ws);
    // arbitrary (equal on both sides) sequence-number phase, wrap included
    let ph = any_u8();
    a.send_window.last_sent_seq_num = ph;
    b.recv_window.ack_seq = ph;
    #[cfg(kani)]
    model_reset(0);
    let msg: [u8; 24] = any_bytes::<24>();
    let ml = any_usize();
    assume(ml >= 1 && ml <= 24);
    let mut off = 0usize;
    let mut seg = [0u8; 24];
    let mut rounds = 0;
    while off < ml && rounds < 3 {
        let n = vok!(a.prep_tx_data(&msg[..ml], &mut off, &mut seg), "harness-setup-call-succeeds");
        vassert!(n > 0 && n <= 20, "ROLE:btp-segment-fits-mtu");
        vassert!(b.process_rx(None, PEER, &seg[..n]).is_ok(), "ROLE:btp-well-formed-segment-accepted");
        rounds += 1;
    }
    vassert!(off == ml, "ROLE:btp-message-fully-segmented");
    vassert!(b.message_available(), "ROLE:btp-message-delivered");
    let mut out = [0u8; 24];
    let got = vok!(b.fetch_message(&mut out), "harness-setup-call-succeeds");
    vassert!(got == ml, "ROLE:btp-message-length-intact");
    let mut i = 0;
    while i < ml {
        vassert!(out[i] == msg[i], "ROLE:btp-message-bytes-intact");
        i += 1;
    }
    vassert!(!b.message_available(), "ROLE:btp-message-delivered-exactly-once");
    // acknowledgement leg: B's (standalone) ack brings A's window back to full
    let n = vok!(b.prep_tx_data(&[], &mut 0, &mut seg), "harness-setup-call-succeeds");
    vassert!(n > 0, "ROLE:btp-ack-sent");
    vassert!(a.process_rx(None, BtAddr([6, 5, 4, 3, 2, 1]), &seg[..n]).is_ok(), "ROLE:btp-well-formed-segment-accepted");
    vassert!(a.send_window.level == ws, "ROLE:btp-ack-reopens-send-window");
    vcover!(rounds == 2 && ph == 255);
}

/// Sender and receiver composed for ONE step (quick tier): whatever first segment an established
/// sender produces for a message of 1..=24 bytes (segment size 20: one or two segments) is
/// accepted by a receiver in the matching state - in particular the non-final first segment of
/// a message that is longer than one segment's payload but not longer than the segment size.
#[cfg_attr(kani, kani::proof)]
#[cfg_attr(kani, kani::unwind(30))]
#[cfg_attr(kani, kani::stub(RingBuf::push, model_push))]
#[cfg_attr(kani, kani::stub(RingBuf::pop, model_pop))]
#[cfg_attr(kani, kani::stub(RingBuf::pop_byte, model_pop_byte))]
#[cfg_attr(kani, kani::stub(RingBuf::free, model_free))]
#[cfg_attr(kani, kani::stub(embassy_time::Instant::now, crate::verif_support::stub_instant_now))]
#[cfg_attr(not(kani), test)]
fn c18_q_first_segment_accepted_by_peer() {
    let mut a = Session::new();
    let mut b = Session::new();
    let ws = any_u8();
    assume(ws >= 2 && ws <= 6);
    a.setup(PEER, 4, 20, ws);
    b.setup(BtAddr([6, 5, 4, 3, 2, 1]), 4, 20, ws);
    let ph = any_u8();
    a.send_window.last_sent_seq_num = ph;
    b.recv_window.ack_seq = ph;
    #[cfg(kani)]
    model_reset(0);
    let msg: [u8; 24] = any_bytes::<24>();
    let ml = any_usize();
    assume(ml >= 1 && ml <= 24);
    let mut off = 0usize;
    let mut seg = [0u8; 24];
    let n = vok!(a.prep_tx_data(&msg[..ml], &mut off, &mut seg), "harness-setup-call-succeeds");
    vassert!(n > 0 && n <= 20, "ROLE:btp-segment-fits-mtu");
    vcover!(ml > 16 && ml <= 20);
    vcover!(off == ml);
    let accepted = b.process_rx(None, PEER, &seg[..n]).is_ok();
    vassert!(accepted, "ROLE:btp-well-formed-segment-accepted");
    vassert!(b.message_available() == (off == ml), "ROLE:btp-message-available-iff-complete");
}

/// The whole handshake between two real sessions (initiator = GATT central, responder =
/// peripheral) for the ATT MTUs 23 (the minimum), 100 and 247 (the maximum) or an unknown one:
/// both ends come out with the same segment size and window, and the first data segment in EACH
/// direction is accepted by the other end (sequence numbering of the implicit handshake
/// response included).
#[cfg_attr(kani, kani::proof)]
#[cfg_attr(kani, kani::unwind(30))]
#[cfg_attr(kani, kani::stub(RingBuf::push, model_push))]
#[cfg_attr(kani, kani::stub(RingBuf::pop, model_pop))]
#[cfg_attr(kani, kani::stub(RingBuf::pop_byte, model_pop_byte))]
#[cfg_attr(kani, kani::stub(RingBuf::free, model_free))]
#[cfg_attr(kani, kani::stub(embassy_time::Instant::now, crate::verif_support::stub_instant_now))]
#[cfg_attr(not(kani), test)]
fn c18_q_handshake_both_ends_agree() {
    let mut a = Session::new();
    a.set_initiator(true);
    let mut b = Session::new();
    let gatt = match any_u8() & 3 {
        0 => None,
        1 => Some(23u16),
        2 => Some(100u16),
        _ => Some(247u16),
    };
    #[cfg(kani)]
    model_reset(0);
    let addr_a = BtAddr([6, 5, 4, 3, 2, 1]);
    let mut seg = [0u8; 24];
    // A -> B: handshake request
    let n = vok!(a.prep_tx_handshake(gatt, &mut seg), "handshake-request-is-produced");
    vassert!(n > 0, "ROLE:btp-initiator-sends-handshake-request");
    let r = b.process_rx(gatt, addr_a, &seg[..n]);
    vassert!(r.is_ok(), "ROLE:btp-own-handshake-request-accepted");
    // B -> A: handshake response
    let n = vok!(b.prep_tx_handshake(gatt, &mut seg), "handshake-response-is-produced");
    vassert!(n > 0, "ROLE:btp-responder-sends-handshake-response");
    let r = a.process_rx(gatt, PEER, &seg[..n]);
    vassert!(r.is_ok(), "ROLE:btp-own-handshake-response-accepted");
    vassert!(a.mtu == b.mtu && a.window_size == b.window_size && a.version == b.version, "ROLE:btp-both-ends-agree-on-segment-size-and-window");
    vassert!(a.mtu >= 20 && a.mtu <= 244 && a.window_size >= 1, "ROLE:btp-negotiated-parameters-usable");
    let want_mtu = match gatt {
        None => 20,
        Some(g) => g - 3,
    };
    vassert!(a.mtu == want_mtu, "ROLE:btp-segment-size-is-att-mtu-minus-3");
    // first data segment in each direction (a one-byte message)
    let msg = [any_u8()];
    let mut off = 0usize;
    let mut big = [0u8; 8];
    let n = vok!(a.prep_tx_data(&msg, &mut off, &mut big), "data");
    vassert!(n > 0, "ROLE:btp-initiator-can-send-after-handshake");
    let ok_ab = b.process_rx(gatt, addr_a, &big[..n]).is_ok();
    vassert!(ok_ab, "ROLE:btp-first-data-segment-of-initiator-accepted");
    let mut off = 0usize;
    let n = vok!(b.prep_tx_data(&msg, &mut off, &mut big), "data");
    vassert!(n > 0, "ROLE:btp-responder-can-send-after-handshake");
    let ok_ba = a.process_rx(gatt, PEER, &big[..n]).is_ok();
    vassert!(ok_ba, "ROLE:btp-first-data-segment-of-responder-accepted");
    vcover!(gatt.is_none());
    vcover!(gatt == Some(247));
}
