//! Solver harnesses mounted into rs-matter/src/transport/network/btp/session.rs
#![allow(unused_imports, dead_code)]
use super::*;
