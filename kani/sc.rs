//! Solver harnesses mounted into rs-matter/src/sc.rs
#![allow(unused_imports, dead_code)]
use super::*;
