//! Harnesses mounted into rs-matter/src/transport/session.rs
//! (C12 group data counter; C04/C10/C15/C20/C07 session-table kernels).
#![allow(unused_imports, dead_code)]
use super::*;
use crate::crypto::backend::dummy::DummyCrypto;
use crate::dm::clusters::basic_info::BasicInfoConfig;
use crate::verif_support::*;
use crate::transport::exchange::{InitiatorState, ResponderState};
use crate::{vassert, vcover, vok};

pub(crate) const DEV: BasicInfoConfig<'static> = BasicInfoConfig::new();

/// for harnesses outside this module (the session fields are private)
pub(crate) fn set_mode(s: &mut Session, m: SessionMode) {
    s.mode = m;
}
const R: u32 = MATTER_MSG_CTR_RANGE; // 2^28 - 1

// ------------------------------------------------------------------------------------------
// C12: global group data counter. Ring: 1..=R (28 bit, skipping 0).
// ------------------------------------------------------------------------------------------
/// forward distance a -> b in the ring 1..=R (R elements)
#[cfg(feature = "groups")]
fn ring_dist(a: u32, b: u32) -> u32 {
    if b >= a {
        b - a
    } else {
        R - a + b
    }
}

#[cfg(feature = "groups")]
fn any_ctr_state() -> (Sessions, u32) {
    let mut s = Sessions::new();
    let ctr = any_u32();
    let d = any_u32();
    assume(ctr >= 1 && ctr <= R);
    assume(d <= GROUP_DATA_CTR_EPOCH);
    // Inv: boundary is 0..=EPOCH ahead of the live counter in the ring, and durable
    let b = Sessions::advance_group_data_ctr_model(ctr, d);
    s.global_group_data_ctr = ctr;
    s.group_data_ctr_boundary = b;
    (s, b)
}

#[cfg(feature = "groups")]
impl Sessions {
    /// independent model of "advance in the ring 1..=R": ((v-1+delta) mod R) + 1
    fn advance_group_data_ctr_model(v: u32, delta: u32) -> u32 {
        // delta <= R here, so one conditional subtraction is the modulo
        let x = (v as u64 - 1) + delta as u64;
        let x = if x >= R as u64 { x - R as u64 } else { x };
        x as u32 + 1
    }
}

/// The ring arithmetic itself: `advance_group_data_ctr` never yields 0, stays in range.
/// (It is NOT a bijection on 1..=R: `& RANGE` maps 2^28 to 0 -> 1, i.e. the step from R goes to
/// 1 via 0 - checked against the model for delta = 1 and delta = EPOCH.)
#[cfg(feature = "groups")]
#[cfg_attr(kani, kani::proof)]
#[cfg_attr(not(kani), test)]
fn c12_q_group_ctr_ring_arith() {
    let v = any_u32();
    assume(v >= 1 && v <= R);
    let n1 = Sessions::advance_group_data_ctr(v, 1);
    vassert!(n1 >= 1 && n1 <= R, "ROLE:group-ctr-stays-in-range-nonzero");
    vassert!(n1 != v, "ROLE:group-ctr-step-changes-value");
    if v < R {
        vassert!(n1 == v + 1, "ROLE:group-ctr-step-is-plus-one");
    } else {
        vcover!(true);
        vassert!(n1 == 1, "ROLE:group-ctr-wraps-to-1");
    }
    let ne = Sessions::advance_group_data_ctr(v, GROUP_DATA_CTR_EPOCH);
    vassert!(ne >= 1 && ne <= R, "ROLE:group-ctr-stays-in-range-nonzero");
    // the boundary is ahead of the value by EPOCH or EPOCH-1 ring steps (0 is skipped by & + fixup)
    let d = ring_dist(v, ne);
    vassert!(d == GROUP_DATA_CTR_EPOCH || d == GROUP_DATA_CTR_EPOCH - 1 || d == GROUP_DATA_CTR_EPOCH + 0,
        "ROLE:group-ctr-boundary-one-epoch-ahead");
}

/// P1: one reservation from every Inv-state.
#[cfg(feature = "groups")]
#[cfg_attr(kani, kani::proof)]
#[cfg_attr(not(kani), test)]
fn c12_q_group_ctr_step() {
    let (mut s, durable) = any_ctr_state();
    let ctr = s.global_group_data_ctr;
    let (v, p) = vok!(s.reserve_global_group_data_ctr(DummyCrypto), "harness-setup-call-succeeds");
    vassert!(v == ctr, "ROLE:group-ctr-value-is-live-counter");
    vassert!(v >= 1 && v <= R, "ROLE:group-ctr-stays-in-range-nonzero");
    let now_durable = match p {
        Some(b) => {
            vcover!(true);
            vassert!(b == s.group_data_ctr_boundary, "ROLE:group-ctr-returned-boundary-is-kept");
            vassert!(ctr == durable, "ROLE:group-ctr-persist-demanded-exactly-when-uncovered");
            b
        }
        None => {
            vcover!(true);
            vassert!(s.group_data_ctr_boundary == durable, "ROLE:group-ctr-no-persist-boundary-unchanged");
            durable
        }
    };
    // the caller stores `p` first, then sends v: v is strictly before the durable boundary
    let d = ring_dist(v, now_durable);
    vassert!(d >= 1 && d <= GROUP_DATA_CTR_EPOCH, "ROLE:group-ctr-value-strictly-before-durable-boundary");
    // Inv again
    let d2 = ring_dist(s.global_group_data_ctr, s.group_data_ctr_boundary);
    vassert!(d2 <= GROUP_DATA_CTR_EPOCH, "ROLE:group-ctr-inv-preserved");
    vassert!(s.global_group_data_ctr >= 1 && s.global_group_data_ctr <= R, "ROLE:group-ctr-stays-in-range-nonzero");
    // restart from the durable boundary: resumes at or after the next value, never at v
    let mut s2 = Sessions::new();
    s2.resume_global_group_data_ctr(now_durable);
    vassert!(s2.global_group_data_ctr != v, "ROLE:group-ctr-restart-never-resumes-at-used-value");
    vassert!(ring_dist(v, s2.global_group_data_ctr) >= 1 && ring_dist(v, s2.global_group_data_ctr) <= GROUP_DATA_CTR_EPOCH,
        "ROLE:group-ctr-restart-resumes-past-used-value");
    vassert!(s2.group_data_ctr_boundary == s2.global_group_data_ctr, "ROLE:group-ctr-resume-covers-nothing-yet");
}

/// First use (counter 0 = uninitialised): seeded from the RNG, boundary demanded before use.
#[cfg(feature = "groups")]
#[cfg_attr(kani, kani::proof)]
#[cfg_attr(not(kani), test)]
fn c12_q_group_ctr_first_use() {
    let mut s = Sessions::new();
    let (v, p) = s
        .reserve_global_group_data_ctr(crate::verif_support::vcrypto::VerifCrypto)
        .unwrap();
    vassert!(v >= 1 && v <= R, "ROLE:group-ctr-stays-in-range-nonzero");
    vassert!(p.is_some(), "ROLE:group-ctr-first-use-demands-persist");
    let d = ring_dist(v, p.unwrap());
    vassert!(d >= 1 && d <= GROUP_DATA_CTR_EPOCH, "ROLE:group-ctr-value-strictly-before-durable-boundary");
}

/// P2: 5-operation schedules {reserve(+store)+send, crash before the store, crash after the
/// send} from any stored boundary incl. the wrap point: all values that reached the wire are
/// pairwise distinct.
#[cfg(feature = "groups")]
#[cfg_attr(kani, kani::proof)]
#[cfg_attr(kani, kani::unwind(7))]
#[cfg_attr(not(kani), test)]
fn c12_q_group_ctr_schedule5() {
    let mut s = Sessions::new();
    let start = any_u32();
    assume(start >= 1 && start <= R);
    s.resume_global_group_data_ctr(start);
    let mut stored: u32 = start;
    let mut wire = [0u32; 5];
    let mut nw = 0usize;
    let mut step = 0;
    while step < 5 {
        let crash_before_store = any_bool();
        let (v, p) = vok!(s.reserve_global_group_data_ctr(DummyCrypto), "harness-setup-call-succeeds");
        let mut sent = true;
        if let Some(b) = p {
            if crash_before_store {
                // crash: the value never went out; restart from what is durable
                s = Sessions::new();
                s.resume_global_group_data_ctr(stored);
                sent = false;
            } else {
                stored = b;
            }
        }
        if sent {
            wire[nw] = v;
            nw += 1;
            if any_bool() {
                // crash after sending
                s = Sessions::new();
                s.resume_global_group_data_ctr(stored);
            }
        }
        step += 1;
    }
    let mut i = 0;
    while i < nw {
        let mut j = i + 1;
        while j < nw {
            vassert!(wire[i] != wire[j], "ROLE:group-ctr-value-never-reused-across-restarts");
            j += 1;
        }
        i += 1;
    }
    vcover!(nw == 5);
    vcover!(nw >= 2 && start == R);
}

/// `load_persist` resumes exactly at the stored little-endian boundary.
#[cfg(feature = "groups")]
#[cfg_attr(kani, kani::proof)]
#[cfg_attr(kani, kani::unwind(6))]
#[cfg_attr(not(kani), test)]
fn c12_q_group_ctr_load_persist() {
    struct One(u32, bool);
    impl KvBlobStore for One {
        fn load<'a>(&mut self, key: u16, buf: &'a mut [u8]) -> Result<Option<&'a [u8]>, Error> {
            if key == GROUP_DATA_COUNTER_KEY && self.1 {
                buf[..4].copy_from_slice(&self.0.to_le_bytes());
                Ok(Some(&buf[..4]))
            } else {
                Ok(None)
            }
        }
        fn store(&mut self, _key: u16, _data: &[u8], _buf: &mut [u8]) -> Result<(), Error> {
            Ok(())
        }
        fn remove(&mut self, _key: u16, _buf: &mut [u8]) -> Result<(), Error> {
            Ok(())
        }
    }
    let b = any_u32();
    let present = any_bool();
    let mut s = Sessions::new();
    let mut buf = [0u8; 8];
    vok!(s.load_persist(One(b, present), &mut buf), "harness-setup-call-succeeds");
    if present && b != 0 {
        vcover!(true);
        vassert!(s.global_group_data_ctr == b && s.group_data_ctr_boundary == b, "ROLE:group-ctr-load-resumes-at-stored-boundary");
    }
    if !present {
        vassert!(s.global_group_data_ctr == 0, "ROLE:group-ctr-absent-key-leaves-uninitialised");
    }
}

// ==========================================================================================
// Session-table kernels: helpers
// ==========================================================================================
pub(crate) fn mk_hdr(ctr: u32, exch: u16, init: bool, reliable: bool, ack: Option<u32>, proto: u16, op: u8) -> PacketHdr {
    let mut h = PacketHdr::new();
    h.plain.ctr = ctr;
    h.proto.exch_id = exch;
    if init {
        h.proto.set_initiator();
    }
    if reliable {
        h.proto.set_reliable();
    }
    h.proto.set_ack(ack);
    h.proto.proto_id = proto;
    h.proto.proto_opcode = op;
    h
}

fn any_role() -> Role {
    let k = any_u8();
    assume(k < 5);
    match k {
        0 => Role::Initiator(InitiatorState::Owned),
        1 => Role::Initiator(InitiatorState::Dropped),
        2 => Role::Responder(ResponderState::AcceptPending),
        3 => Role::Responder(ResponderState::Owned),
        _ => Role::Responder(ResponderState::Dropped),
    }
}

fn any_mode() -> SessionMode {
    let k = any_u8();
    assume(k < 4);
    match k {
        0 => SessionMode::PlainText,
        1 => SessionMode::Pase { fab_idx: any_u8() },
        2 => {
            let f = any_u8();
            assume(f != 0);
            SessionMode::Case {
                fab_idx: NonZeroU8::new(f).unwrap(),
                cat_ids: [0; 3],
            }
        }
        _ => {
            let f = any_u8();
            assume(f != 0);
            SessionMode::Group {
                fab_idx: NonZeroU8::new(f).unwrap(),
                group_id: any_u16(),
            }
        }
    }
}

fn count_exch(s: &Session) -> usize {
    let mut n = 0;
    let mut i = 0;
    while i < s.exchanges.len() {
        if s.exchanges[i].is_some() {
            n += 1;
        }
        i += 1;
    }
    n
}

/// A fresh secure (CASE) session as `Sessions::add` creates it.
fn fresh_case_session(ss: &mut Sessions) -> &mut Session {
    let s = vok!(ss.add(any_u32(), false, Address::new(), Some(77), &DEV), "harness-setup-call-succeeds");
    s.mode = SessionMode::Case {
        fab_idx: NonZeroU8::new(1).unwrap(),
        cat_ids: [0; 3],
    };
    s
}

// ==========================================================================================
// C04 at the session level: duplicates surface as Err(Duplicate) before exchange processing;
// the window state a session starts in is the one the dedup harnesses start from.
// ==========================================================================================
#[cfg_attr(kani, kani::proof)]
#[cfg_attr(kani, kani::unwind(8))]
#[cfg_attr(kani, kani::stub(embassy_time::Instant::now, crate::verif_support::stub_instant_now))]
#[cfg_attr(not(kani), test)]
fn c04_q_session_initial_window_state() {
    let mut ss = Sessions::new();
    let s = vok!(ss.add(any_u32(), any_bool(), Address::new(), None, &DEV), "harness-setup-call-succeeds");
    let init = crate::transport::dedup::verif_kani_dedup::initial_state();
    vassert!(
        crate::transport::dedup::verif_kani_dedup::state_eq(&s.rx_ctr_state, &init),
        "ROLE:session-starts-in-the-initial-window-state"
    );
    let s2 = Session::new(1, any_u32(), false, Address::new(), None, 300, 300, 4000);
    vassert!(
        crate::transport::dedup::verif_kani_dedup::state_eq(&s2.rx_ctr_state, &init),
        "ROLE:session-starts-in-the-initial-window-state"
    );
}

#[cfg_attr(kani, kani::proof)]
#[cfg_attr(kani, kani::unwind(8))]
#[cfg_attr(kani, kani::stub(embassy_time::Instant::now, crate::verif_support::stub_instant_now))]
#[cfg_attr(not(kani), test)]
fn c04_q_session_first_two_messages() {
    let mut ss = Sessions::new();
    let s = fresh_case_session(&mut ss);
    let c1 = any_u32();
    let c2 = any_u32();
    let e1 = 7u16;
    // first message of the session: an initiator message opening an exchange
    let r1 = s.post_recv(&mk_hdr(c1, e1, true, true, None, 1, 2));
    vassert!(r1.is_ok(), "ROLE:first-message-accepted");
    let n_exch = count_exch(s);
    let w = crate::transport::dedup::verif_kani_dedup::state_fields(&s.rx_ctr_state);
    let ctr_before = s.msg_ctr;
    let r2 = s.post_recv(&mk_hdr(c2, 9, true, true, None, 1, 2));
    if c2 == c1 {
        vcover!(true);
        let dup = match &r2 {
            Err(e) => e.code() == ErrorCode::Duplicate,
            Ok(_) => false,
        };
        vassert!(dup, "ROLE:duplicate-surfaces-as-error-before-exchange-processing");
        vassert!(count_exch(s) == n_exch, "ROLE:duplicate-leaves-exchange-table-untouched");
        vassert!(
            crate::transport::dedup::verif_kani_dedup::state_fields(&s.rx_ctr_state) == w,
            "ROLE:duplicate-leaves-window-untouched"
        );
        vassert!(s.msg_ctr == ctr_before, "ROLE:duplicate-leaves-send-counter-untouched");
    }
    if c2 != c1 && (c2 > c1 || c1 - c2 <= 16) {
        vcover!(c2 < c1);
        let dup = match &r2 {
            Err(e) => e.code() == ErrorCode::Duplicate,
            Ok(_) => false,
        };
        vassert!(!dup, "ROLE:first-time-counter-not-reported-duplicate");
    }
    if c2 < c1 && c1 - c2 > 16 {
        vcover!(true);
        vassert!(r2.is_err(), "ROLE:older-than-window-rejected");
    }
}

// ==========================================================================================
// C10: exchange matching and the new-exchange gate
// ==========================================================================================
fn exchange_matching_and_gate<const K: usize>() {
    let mut ss = Sessions::new();
    let s = fresh_case_session(&mut ss);
    // up to K slots, some of them free again
    let n = any_u8();
    assume(n as usize <= K);
    let mut ids = [0u16; K];
    let mut resp = [false; K];
    let mut live = [false; K];
    let mut i = 0usize;
    while i < n as usize {
        let id = any_u16();
        let role = any_role();
        let idx = s.add_exch(id, role).unwrap();
        vassert!(idx == i, "ROLE:exchange-slots-fill-in-order");
        ids[i] = id;
        resp[i] = matches!(role, Role::Responder(_));
        live[i] = true;
        if any_bool() {
            s.exchanges[i] = None;
            live[i] = false;
        }
        i += 1;
    }
    s.expired = any_bool();
    let expired = s.expired;
    let init = any_bool();
    let eid = any_u16();
    let proto = any_u16();
    let op = any_u8();
    let rx = mk_hdr(any_u32(), eid, init, any_bool(), None, proto, op);

    // reference: first live slot with the same id and the opposite role
    let mut want: Option<usize> = None;
    let mut k = 0usize;
    while k < K {
        if want.is_none() && live[k] && ids[k] == eid && resp[k] == init {
            want = Some(k);
        }
        k += 1;
    }
    vassert!(s.get_exch_for_rx(&rx.proto) == want, "ROLE:message-matches-only-its-own-exchange(first-same-id-opposite-role)");

    let before = count_exch(s);
    let r = s.post_recv(&rx);
    let is_ack_or_status = proto == 0 && (op == 0x10 || op == 0x40);
    match (&r, want) {
        (Ok(new), Some(_)) => {
            vcover!(true);
            vassert!(!*new, "ROLE:delivery-to-existing-exchange-creates-none");
            vassert!(count_exch(s) == before, "ROLE:delivery-to-existing-exchange-creates-none");
        }
        (Ok(new), None) => {
            vcover!(true);
            vassert!(*new, "ROLE:unmatched-accepted-message-opens-exchange");
            vassert!(init, "ROLE:new-exchange-only-from-initiator-message");
            vassert!(!is_ack_or_status, "ROLE:new-exchange-never-from-standalone-ack-or-status");
            vassert!(!expired, "ROLE:new-exchange-never-on-expired-session");
            vassert!(count_exch(s) == before + 1, "ROLE:new-exchange-occupies-one-slot");
            // and it is a responder exchange with the message's id
            let idx = s.get_exch_for_rx(&rx.proto);
            vassert!(idx.is_some(), "ROLE:new-exchange-matches-its-opening-message");
            let e = s.exchanges[idx.unwrap()].as_ref().unwrap();
            vassert!(e.exch_id == eid && matches!(e.role, Role::Responder(ResponderState::AcceptPending)), "ROLE:new-exchange-is-responder-accept-pending");
        }
        (Err(e), None) => {
            vcover!(true);
            vassert!(count_exch(s) == before, "ROLE:refused-message-creates-no-exchange");
            if !init || is_ack_or_status {
                vassert!(e.code() == ErrorCode::NoExchange, "ROLE:answer-to-unknown-exchange-dropped(NoExchange)");
            } else if expired {
                vassert!(e.code() == ErrorCode::NoSession, "ROLE:expired-session-refuses-new-exchange(NoSession)");
            }
        }
        (Err(_), Some(_)) => {}
    }
    // only the MRP layer can refuse a matched message (foreign ack => Duplicate) - no ack here
    vassert!(!(r.is_err() && want.is_some()), "ROLE:matched-message-without-ack-is-delivered");
    let mut all_live = true;
    let mut q = 0usize;
    while q < K {
        all_live &= live[q];
        q += 1;
    }
    let free_slot = (n as usize) < MAX_EXCHANGES || !all_live;
    if want.is_none() && init && !is_ack_or_status && !expired && free_slot {
        vassert!(r.is_ok(), "ROLE:legitimate-initiator-message-opens-exchange-when-slot-free");
    }
}

#[cfg_attr(kani, kani::proof)]
#[cfg_attr(kani, kani::unwind(8))]
#[cfg_attr(kani, kani::stub(embassy_time::Instant::now, crate::verif_support::stub_instant_now))]
#[cfg_attr(not(kani), test)]
fn c10_q_exchange_matching_and_gate() {
    exchange_matching_and_gate::<3>();
}

/// thorough: all MAX_EXCHANGES (5) slots arbitrary
#[cfg_attr(kani, kani::proof)]
#[cfg_attr(kani, kani::unwind(8))]
#[cfg_attr(kani, kani::stub(embassy_time::Instant::now, crate::verif_support::stub_instant_now))]
#[cfg_attr(not(kani), test)]
fn c10_t_exchange_matching_and_gate_5_slots() {
    exchange_matching_and_gate::<5>();
}

/// Exchange slot table full (MAX_EXCHANGES live exchanges): a new initiator message gets
/// NoSpaceExchanges and nothing changes.
#[cfg_attr(kani, kani::proof)]
#[cfg_attr(kani, kani::unwind(8))]
#[cfg_attr(kani, kani::stub(embassy_time::Instant::now, crate::verif_support::stub_instant_now))]
#[cfg_attr(not(kani), test)]
fn c10_q_exchange_table_full() {
    let mut ss = Sessions::new();
    let s = fresh_case_session(&mut ss);
    let mut i = 0;
    while i < MAX_EXCHANGES {
        // distinct ids 100.. so that the probe id below is new
        s.add_exch(100 + i as u16, Role::Responder(ResponderState::Owned)).unwrap();
        i += 1;
    }
    let eid = any_u16();
    assume(eid < 100);
    let r = s.post_recv(&mk_hdr(any_u32(), eid, true, true, None, 1, 2));
    let full = match &r {
        Err(e) => e.code() == ErrorCode::NoSpaceExchanges,
        Ok(_) => false,
    };
    vassert!(full, "ROLE:no-free-slot-yields-NoSpaceExchanges");
    vassert!(count_exch(s) == MAX_EXCHANGES, "ROLE:refused-message-creates-no-exchange");
    // a freed slot is reused
    s.exchanges[2] = None;
    let r = s.post_recv(&mk_hdr(any_u32(), eid, true, true, None, 1, 2));
    if r.is_ok() {
        vcover!(true);
        vassert!(s.exchanges[2].as_ref().map(|e| e.exch_id) == Some(eid), "ROLE:freed-slot-is-reused");
    }
}

/// remove_exch: the slot is freed iff nothing is pending; otherwise marked dropped.
#[cfg_attr(kani, kani::proof)]
#[cfg_attr(kani, kani::unwind(8))]
#[cfg_attr(kani, kani::stub(embassy_time::Instant::now, crate::verif_support::stub_instant_now))]
#[cfg_attr(not(kani), test)]
fn c10_q_remove_exch() {
    let mut ss = Sessions::new();
    let s = fresh_case_session(&mut ss);
    let idx = s.add_exch(any_u16(), any_role()).unwrap();
    let retr = any_bool();
    let ack = any_bool();
    let acked = any_bool();
    {
        let e = s.exchanges[idx].as_mut().unwrap();
        if retr {
            e.mrp.retrans = Some(RetransEntry::new(None, any_u32()));
        }
        if ack {
            let mut a = vok!(crate::transport::mrp::AckEntry::new(any_u32()), "harness-setup-call-succeeds");
            a.acknowledged = acked;
            e.mrp.ack = Some(a);
        }
    }
    let freed = s.remove_exch(idx);
    let pending = retr || (ack && !acked);
    vassert!(freed == !pending, "ROLE:dropped-exchange-freed-iff-nothing-pending");
    if freed {
        vassert!(s.exchanges[idx].is_none(), "ROLE:dropped-exchange-freed-iff-nothing-pending");
    } else {
        vcover!(true);
        vassert!(s.exchanges[idx].as_ref().unwrap().role.is_dropped_state(), "ROLE:pending-exchange-marked-dropped");
    }
}

// ==========================================================================================
// C15: counters, retransmissions, identifier uniqueness
// ==========================================================================================
/// A message that is not a retransmission gets the session counter and leaves counter + 1.
#[cfg_attr(kani, kani::proof)]
#[cfg_attr(kani, kani::unwind(8))]
#[cfg_attr(kani, kani::stub(embassy_time::Instant::now, crate::verif_support::stub_instant_now))]
#[cfg_attr(not(kani), test)]
fn c15_q_send_counter_strictly_increases() {
    let mut ss = Sessions::new();
    let s = fresh_case_session(&mut ss);
    s.msg_ctr = any_u32();
    // stated assumption: a session ends before 2^32 messages
    assume(s.msg_ctr < u32::MAX - 3);
    let c0 = s.msg_ctr;
    let ei = s.add_exch(any_u16(), any_role()).unwrap();
    let mut tx1 = PacketHdr::new();
    if any_bool() {
        tx1.proto.set_reliable();
    }
    let reliable1 = tx1.proto.is_reliable();
    let (_, retr1) = vok!(s.pre_send(Some(ei), &mut tx1, None, None), "harness-setup-call-succeeds");
    vassert!(!retr1, "ROLE:first-transmission-is-not-a-retransmission");
    vassert!(tx1.plain.ctr == c0 && s.msg_ctr == c0 + 1, "ROLE:new-message-takes-counter-and-increments");
    // the peer acknowledges (or the message was unreliable): next message is a NEW one
    if reliable1 {
        let rx = mk_hdr(any_u32(), s.exchanges[ei].as_ref().unwrap().exch_id,
            matches!(s.exchanges[ei].as_ref().unwrap().role, Role::Responder(_)), false, Some(c0), 1, 5);
        vassert!(s.post_recv(&rx).is_ok(), "ROLE:matching-ack-accepted");
    }
    let mut tx2 = PacketHdr::new();
    tx2.proto.set_reliable();
    let (_, retr2) = vok!(s.pre_send(Some(ei), &mut tx2, None, None), "harness-setup-call-succeeds");
    vassert!(!retr2, "ROLE:after-ack-next-message-is-new");
    vassert!(tx2.plain.ctr == c0 + 1 && tx2.plain.ctr > tx1.plain.ctr, "ROLE:new-message-counter-strictly-greater");
    // standalone message without exchange also consumes a fresh counter
    let mut tx3 = PacketHdr::new();
    let _ = vok!(s.pre_send(None, &mut tx3, None, None), "harness-setup-call-succeeds");
    vassert!(tx3.plain.ctr == c0 + 2, "ROLE:new-message-counter-strictly-greater");
}

/// A retransmission carries the same counter and the same header as the original, whatever
/// single message is received in between (unless that message acknowledges it).
#[cfg_attr(kani, kani::proof)]
#[cfg_attr(kani, kani::unwind(8))]
#[cfg_attr(kani, kani::stub(embassy_time::Instant::now, crate::verif_support::stub_instant_now))]
#[cfg_attr(not(kani), test)]
fn c15_q_retransmission_identical_header() {
    let mut ss = Sessions::new();
    let s = fresh_case_session(&mut ss);
    s.peer_sess_id = any_u16();
    assume(s.msg_ctr < u32::MAX - 1);
    let eid = any_u16();
    let ei = s.add_exch(eid, Role::Initiator(Default::default())).unwrap();
    // possibly a pending ack from a message received earlier
    let had_ack = any_bool();
    if had_ack {
        s.exchanges[ei].as_mut().unwrap().mrp.ack = Some(vok!(crate::transport::mrp::AckEntry::new(any_u32()), "harness-setup-call-succeeds"));
    }
    let mut tx1 = PacketHdr::new();
    tx1.proto.set_reliable();
    tx1.proto.proto_id = 1;
    tx1.proto.proto_opcode = 2;
    let (_, retr1) = vok!(s.pre_send(Some(ei), &mut tx1, None, None), "harness-setup-call-succeeds");
    vassert!(!retr1, "ROLE:first-transmission-is-not-a-retransmission");
    let ctr_after_first = s.msg_ctr;
    // at most one incoming message on the same exchange that does not acknowledge tx1
    let interleaved = any_bool();
    let mut rx_reliable = false;
    if interleaved {
        let ack = if any_bool() { Some(any_u32()) } else { None };
        if let Some(a) = ack {
            assume(a != tx1.plain.ctr);
        }
        rx_reliable = any_bool();
        let rx = mk_hdr(any_u32(), eid, false, rx_reliable, ack, 1, 5);
        let _ = s.post_recv(&rx);
    }
    let mut tx2 = PacketHdr::new();
    tx2.proto.set_reliable();
    tx2.proto.proto_id = 1;
    tx2.proto.proto_opcode = 2;
    if let Ok((_, retr2)) = s.pre_send(Some(ei), &mut tx2, None, None) {
        vassert!(retr2, "ROLE:unacknowledged-message-is-retransmitted");
        vassert!(tx2.plain.ctr == tx1.plain.ctr, "ROLE:retransmission-reuses-the-counter");
        vassert!(s.msg_ctr == ctr_after_first, "ROLE:retransmission-consumes-no-counter");
        vassert!(tx2.plain.sess_id == tx1.plain.sess_id && tx2.plain.sec_flags == tx1.plain.sec_flags
            && tx2.plain.get_src_nodeid() == tx1.plain.get_src_nodeid()
            && tx2.plain.get_dst_unicast_nodeid() == tx1.plain.get_dst_unicast_nodeid(),
            "ROLE:retransmission-same-plain-header");
        vassert!(tx2.proto.exch_id == tx1.proto.exch_id && tx2.proto.is_initiator() == tx1.proto.is_initiator()
            && tx2.proto.is_reliable() == tx1.proto.is_reliable(),
            "ROLE:retransmission-same-exchange-header");
        if !interleaved || !rx_reliable {
            vcover!(interleaved);
            vassert!(tx2.proto.get_ack() == tx1.proto.get_ack(), "ROLE:retransmission-same-piggybacked-ack(no reliable message received in between)");
        } else {
            vcover!(true);
            vassert!(tx2.proto.get_ack() == tx1.proto.get_ack(), "ROLE:retransmission-same-piggybacked-ack(reliable message received in between)");
        }
    }
}

/// Locally chosen session ids: non-zero and unique among live sessions (3 live sessions).
#[cfg_attr(kani, kani::proof)]
#[cfg_attr(kani, kani::unwind(8))]
#[cfg_attr(kani, kani::stub(embassy_time::Instant::now, crate::verif_support::stub_instant_now))]
#[cfg_attr(not(kani), test)]
fn c15_q_session_id_unique() {
    let mut ss = Sessions::new();
    let mut ids = [0u16; 3];
    let mut i = 0;
    while i < 3 {
        let s = vok!(ss.add(1, any_bool(), Address::new(), None, &DEV), "harness-setup-call-succeeds");
        s.local_sess_id = any_u16();
        ids[i] = s.local_sess_id;
        i += 1;
    }
    ss.next_sess_id = any_u16();
    // representation invariant of the allocator cursor: never 0 (starts at 1, wraps to 1)
    assume(ss.next_sess_id != 0);
    let id = ss.get_next_sess_id();
    vassert!(id != 0, "ROLE:session-id-never-zero");
    vassert!(id != ids[0] && id != ids[1] && id != ids[2], "ROLE:session-id-unique-among-live-sessions");
    vassert!(ss.next_sess_id != 0, "ROLE:session-id-cursor-never-zero");
    vcover!(ss.next_sess_id == 1);
}

/// Locally chosen exchange ids: unique among live exchanges this node initiated.
#[cfg_attr(kani, kani::proof)]
#[cfg_attr(kani, kani::unwind(8))]
#[cfg_attr(kani, kani::stub(embassy_time::Instant::now, crate::verif_support::stub_instant_now))]
#[cfg_attr(not(kani), test)]
fn c15_q_exchange_id_unique() {
    let mut ss = Sessions::new();
    let a = vok!(ss.add(1, false, Address::new(), Some(77), &DEV), "harness-setup-call-succeeds");
    let e1 = any_u16();
    let r1 = any_role();
    a.add_exch(e1, r1).unwrap();
    let e2 = any_u16();
    let r2 = any_role();
    a.add_exch(e2, r2).unwrap();
    ss.next_exch_id = any_u16();
    let seeded = ss.next_exch_id != 0;
    let id = vok!(ss.get_next_exch_id(crate::verif_support::vcrypto::VerifCrypto), "harness-setup-call-succeeds");
    if matches!(r1, Role::Initiator(_)) {
        vcover!(seeded);
        vassert!(id != e1, "ROLE:exchange-id-unique-among-live-initiator-exchanges");
    }
    if matches!(r2, Role::Initiator(_)) {
        vassert!(id != e2, "ROLE:exchange-id-unique-among-live-initiator-exchanges");
    }
    vassert!(ss.next_exch_id != 0, "ROLE:exchange-id-cursor-never-zero");
}

// ==========================================================================================
// C20: session table reclamation kernels
// ==========================================================================================
/// two sessions of arbitrary mode / flags (three ran out of 24 GB in the purge harnesses)
fn populate2(ss: &mut Sessions) {
    let mut i = 0;
    while i < 2 {
        let reserved = any_bool();
        let s = vok!(ss.add(1, reserved, Address::new(), None, &DEV), "harness-setup-call-succeeds");
        s.mode = any_mode();
        s.expired = any_bool();
        s.last_use = Instant::from_ticks(any_u64());
        if any_bool() {
            s.add_exch(any_u16(), any_role()).unwrap();
        }
        i += 1;
    }
}

#[cfg_attr(kani, kani::proof)]
#[cfg_attr(kani, kani::unwind(8))]
#[cfg_attr(kani, kani::stub(embassy_time::Instant::now, crate::verif_support::stub_instant_now))]
#[cfg_attr(not(kani), test)]
fn c20_q_eviction_choice() {
    let mut ss = Sessions::new();
    populate2(&mut ss);
    {
        // a third one
        let reserved = any_bool();
        let s = vok!(ss.add(1, reserved, Address::new(), None, &DEV), "harness-setup-call-succeeds");
        s.expired = any_bool();
        s.last_use = Instant::from_ticks(any_u64());
    }
    set_now(any_u64());
    let now = now_ticks();
    // clock contract: non-decreasing => no session was used after "now" (ties allowed)
    let mut i = 0;
    let mut idle_exists = false;
    let mut idle_expired_exists = false;
    let mut idle_strictly_older_exists = false;
    while i < 3 {
        let s = &ss.sessions[i];
        assume(s.last_use.as_ticks() <= now);
        let idle = !s.reserved && count_exch(s) == 0;
        idle_exists |= idle;
        idle_expired_exists |= idle && s.expired;
        idle_strictly_older_exists |= idle && s.last_use.as_ticks() < now;
        i += 1;
    }
    match ss.get_session_for_eviction() {
        Some(s) => {
            vcover!(true);
            vassert!(!s.reserved, "ROLE:eviction-never-picks-reserved-session");
            vassert!(count_exch(s) == 0, "ROLE:eviction-never-picks-session-with-live-exchange");
            if idle_expired_exists {
                vcover!(true);
                vassert!(s.expired, "ROLE:eviction-prefers-expired-sessions");
            }
        }
        None => {
            vcover!(true);
            vassert!(!idle_expired_exists, "ROLE:idle-expired-session-is-offered");
            vassert!(!idle_strictly_older_exists, "ROLE:idle-session-is-offered(last use before now)");
            vassert!(!idle_exists, "ROLE:idle-session-is-offered(last use in the same clock tick)");
        }
    }
}

/// `add` fails exactly when the table is full (symbolic fill level up to the real capacity).
#[cfg_attr(kani, kani::proof)]
#[cfg_attr(kani, kani::unwind(18))]
#[cfg_attr(kani, kani::stub(embassy_time::Instant::now, crate::verif_support::stub_instant_now))]
#[cfg_attr(not(kani), test)]
fn c20_t_add_fails_iff_table_full() {
    let mut ss = Sessions::new();
    let n = any_usize();
    assume(n <= MAX_SESSIONS);
    let mut i = 0;
    while i < n {
        vok!(ss.add(1, false, Address::new(), None, &DEV), "harness-setup-call-succeeds");
        i += 1;
    }
    let r = ss.add(1, any_bool(), Address::new(), None, &DEV);
    match r {
        Ok(_) => vassert!(n < MAX_SESSIONS, "ROLE:add-succeeds-while-capacity-left"),
        Err(e) => {
            vcover!(true);
            vassert!(n == MAX_SESSIONS, "ROLE:add-fails-only-when-full");
            vassert!(e.code() == ErrorCode::NoSpaceSessions, "ROLE:table-full-reported-as-NoSpaceSessions");
        }
    }
    // remove frees the slot again
    if n == MAX_SESSIONS {
        let id = ss.sessions[0].id;
        vassert!(ss.remove(id).is_some(), "ROLE:remove-frees-slot");
        vassert!(ss.add(1, false, Address::new(), None, &DEV).is_ok(), "ROLE:remove-frees-slot");
    }
}

/// PASE purge: afterwards no PASE session is left except the answering one, which is expired.
#[cfg_attr(kani, kani::proof)]
#[cfg_attr(kani, kani::unwind(4))]
#[cfg_attr(kani, kani::stub(embassy_time::Instant::now, crate::verif_support::stub_instant_now))]
#[cfg_attr(not(kani), test)]
fn c20_q_pase_purge() {
    let mut ss = Sessions::new();
    populate2(&mut ss);
    let keep = if any_bool() { Some(ss.sessions[any_in(0, 1) as usize].id) } else { None };
    let mut non_pase = 0;
    let mut i = 0;
    while i < 2 {
        if !matches!(ss.sessions[i].mode, SessionMode::Pase { .. }) {
            non_pase += 1;
        }
        i += 1;
    }
    ss.remove_pase(keep);
    let mut left_non_pase = 0;
    let mut i = 0;
    while i < ss.sessions.len() {
        let s = &ss.sessions[i];
        if matches!(s.mode, SessionMode::Pase { .. }) {
            vcover!(true);
            vassert!(Some(s.id) == keep, "ROLE:pase-purge-leaves-only-the-answering-session");
            vassert!(s.expired, "ROLE:pase-purge-expires-the-answering-session");
        } else {
            left_non_pase += 1;
        }
        i += 1;
    }
    vassert!(left_non_pase == non_pase, "ROLE:pase-purge-leaves-other-sessions");
}

// ==========================================================================================
// C07: sessions of a fabric that is gone
// ==========================================================================================
#[cfg_attr(kani, kani::proof)]
#[cfg_attr(kani, kani::unwind(4))]
#[cfg_attr(kani, kani::stub(embassy_time::Instant::now, crate::verif_support::stub_instant_now))]
#[cfg_attr(not(kani), test)]
fn c07_q_remove_for_fabric() {
    let mut ss = Sessions::new();
    populate2(&mut ss);
    let f = any_u8();
    assume(f != 0);
    let keep = if any_bool() { Some(ss.sessions[any_in(0, 1) as usize].id) } else { None };
    // remember the sessions of other fabrics
    let mut other = [(0u32, false); 2];
    let mut n_other = 0;
    let mut i = 0;
    while i < 2 {
        let s = &ss.sessions[i];
        if s.mode.fab_idx() != f {
            other[n_other] = (s.id, s.expired);
            n_other += 1;
        }
        i += 1;
    }
    ss.remove_for_fabric(NonZeroU8::new(f).unwrap(), keep);
    let mut seen_other = 0;
    let mut i = 0;
    while i < ss.sessions.len() {
        let s = &ss.sessions[i];
        if s.mode.fab_idx() == f {
            vcover!(true);
            vassert!(Some(s.id) == keep, "ROLE:no-session-of-removed-fabric-survives(except the answering one)");
            vassert!(s.expired, "ROLE:answering-session-of-removed-fabric-is-expired");
        } else {
            let mut k = 0;
            while k < n_other {
                if other[k].0 == s.id {
                    seen_other += 1;
                    if Some(s.id) != keep {
                        vassert!(s.expired == other[k].1, "ROLE:sessions-of-other-fabrics-unaffected");
                    }
                }
                k += 1;
            }
        }
        i += 1;
    }
    vassert!(seen_other == n_other, "ROLE:sessions-of-other-fabrics-unaffected");
}

/// An expired session (the answering session of a removed fabric) opens no new exchange.
#[cfg_attr(kani, kani::proof)]
#[cfg_attr(kani, kani::unwind(8))]
#[cfg_attr(kani, kani::stub(embassy_time::Instant::now, crate::verif_support::stub_instant_now))]
#[cfg_attr(not(kani), test)]
fn c07_q_expired_session_refuses_new_exchange() {
    let mut ss = Sessions::new();
    let s = fresh_case_session(&mut ss);
    s.mode = any_mode();
    s.expired = true;
    let r = s.post_recv(&mk_hdr(any_u32(), any_u16(), any_bool(), any_bool(), None, any_u16(), any_u8()));
    vassert!(r.is_err(), "ROLE:expired-session-opens-no-new-exchange");
    vassert!(count_exch(s) == 0, "ROLE:expired-session-opens-no-new-exchange");
}

// ==========================================================================================
// C03: which session an incoming datagram is matched to (before any key is used): only a
// session with the datagram's session id, the same kind (secured / unsecured), the same peer
// transport address and a compatible source node id; never a reserved one.
// ==========================================================================================
#[cfg_attr(kani, kani::proof)]
#[cfg_attr(kani, kani::unwind(8))]
#[cfg_attr(kani, kani::stub(embassy_time::Instant::now, crate::verif_support::stub_instant_now))]
#[cfg_attr(not(kani), test)]
fn c03_q_rx_session_selection() {
    use core::net::{IpAddr, Ipv4Addr, SocketAddr};
    let mut ss = Sessions::new();
    let (ip_s, port_s) = (any_u32(), any_u16());
    let addr_s = Address::Udp(SocketAddr::new(IpAddr::V4(Ipv4Addr::from(ip_s)), port_s));
    let reserved = any_bool();
    let peer_node = if any_bool() { Some(any_u64()) } else { None };
    let mode = any_mode();
    let secured = !matches!(mode, SessionMode::PlainText);
    let (lsid, lnode) = (any_u16(), any_u64());
    {
        let s = vok!(ss.add(1, reserved, addr_s, peer_node, &DEV), "harness-setup-call-succeeds");
        s.mode = mode;
        s.local_sess_id = lsid;
        s.local_nodeid = lnode;
    }
    // the incoming datagram
    let (ip_r, port_r) = (any_u32(), any_u16());
    let addr_r = Address::Udp(SocketAddr::new(IpAddr::V4(Ipv4Addr::from(ip_r)), port_r));
    let mut plain = PlainHdr::default();
    plain.sess_id = any_u16();
    plain.set_group_session(any_bool());
    let src = if any_bool() { Some(any_u64()) } else { None };
    plain.set_src_nodeid(src);
    let dst = if any_bool() { Some(any_u64()) } else { None };
    plain.set_dst_unicast_nodeid(dst);
    let hit = ss.get_for_rx(&addr_r, &plain).is_some();
    let same_addr = ip_s == ip_r && port_s == port_r;
    let src_ok = match (peer_node, src) {
        (Some(a), Some(b)) => a == b,
        _ => true,
    };
    let dst_ok = secured
        || lnode == 0
        || match dst {
            Some(d) => d == lnode,
            None => true,
        };
    let want = !reserved && plain.sess_id == lsid && plain.is_encrypted() == secured && same_addr && src_ok && dst_ok;
    vcover!(hit && secured);
    vcover!(hit && !secured && dst.is_some());
    if hit {
        vassert!(plain.sess_id == lsid, "ROLE:datagram-matched-only-to-the-session-with-its-session-id");
        vassert!(plain.is_encrypted() == secured, "ROLE:secured-datagram-never-matched-to-unsecured-session-and-vice-versa");
        vassert!(same_addr, "ROLE:datagram-matched-only-to-a-session-with-the-same-peer-address");
        vassert!(src_ok, "ROLE:datagram-of-another-source-node-not-matched");
        vassert!(!reserved, "ROLE:reserved-session-receives-nothing");
    }
    vassert!(hit == want, "ROLE:rx-session-selection-equals-reference");
}

// ==========================================================================================
// C10 / C09 composed over two ends: a request from A's initiator exchange opens exactly one
// responder exchange at B; B's answer carries the same exchange id with the initiator flag
// cleared and the acknowledgement of A's counter, and at A it is delivered to the exchange
// that sent the request (no new exchange), ending its retransmissions.
// ==========================================================================================
#[cfg_attr(kani, kani::proof)]
#[cfg_attr(kani, kani::unwind(8))]
#[cfg_attr(kani, kani::stub(embassy_time::Instant::now, crate::verif_support::stub_instant_now))]
#[cfg_attr(not(kani), test)]
fn c10_q_two_ends_request_response() {
    let mut ssa = Sessions::new();
    let mut ssb = Sessions::new();
    let sa = fresh_case_session(&mut ssa);
    let sb = fresh_case_session(&mut ssb);
    assume(sa.msg_ctr < u32::MAX - 3 && sb.msg_ctr < u32::MAX - 3);
    let eid = any_u16();
    let ea = sa.add_exch(eid, Role::Initiator(Default::default())).unwrap();
    // A -> B: request
    let mut req = PacketHdr::new();
    req.proto.set_reliable();
    req.proto.proto_id = 1;
    req.proto.proto_opcode = 2;
    vok!(sa.pre_send(Some(ea), &mut req, None, None), "harness-setup-call-succeeds");
    vassert!(req.proto.exch_id == eid && req.proto.is_initiator(), "ROLE:request-carries-its-exchange-id-and-the-initiator-flag");
    let opened = sb.post_recv(&req);
    vassert!(matches!(opened, Ok(true)), "ROLE:legitimate-initiator-message-opens-exchange-when-slot-free");
    vassert!(count_exch(sb) == 1, "ROLE:new-exchange-occupies-one-slot");
    let eb = sb.get_exch_for_rx(&req.proto);
    vassert!(eb.is_some(), "ROLE:new-exchange-matches-its-opening-message");
    // B -> A: answer on that exchange
    let mut rsp = PacketHdr::new();
    let rsp_reliable = any_bool();
    if rsp_reliable {
        rsp.proto.set_reliable();
    }
    rsp.proto.proto_id = 1;
    rsp.proto.proto_opcode = 5;
    vok!(sb.pre_send(eb, &mut rsp, None, None), "harness-setup-call-succeeds");
    vassert!(rsp.proto.exch_id == eid && !rsp.proto.is_initiator(), "ROLE:answer-carries-the-exchange-id-with-the-initiator-flag-cleared");
    vassert!(rsp.proto.get_ack() == Some(req.plain.ctr), "ROLE:answer-acknowledges-exactly-the-received-counter");
    let delivered = sa.post_recv(&rsp);
    vassert!(matches!(delivered, Ok(false)), "ROLE:answer-is-delivered-to-the-requesting-exchange(no new exchange)");
    vassert!(count_exch(sa) == 1, "ROLE:delivery-to-existing-exchange-creates-none");
    let still = sa.exchanges[ea].as_ref().unwrap().mrp.retrans.is_some();
    vassert!(!still, "ROLE:matching-ack-ends-retransmission");
    vcover!(rsp_reliable);
}
