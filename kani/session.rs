//! Harnesses mounted into rs-matter/src/transport/session.rs
//! (C12 group data counter; C04/C10/C15/C20/C07 session-table kernels).
#![allow(unused_imports, dead_code)]
use super::*;
use crate::crypto::backend::dummy::DummyCrypto;
use crate::dm::clusters::basic_info::BasicInfoConfig;
use crate::verif_support::*;
use crate::{vassert, vcover};

pub(crate) const DEV: BasicInfoConfig<'static> = BasicInfoConfig::new();
const R: u32 = MATTER_MSG_CTR_RANGE; // 2^28 - 1

// ------------------------------------------------------------------------------------------
// C12: global group data counter. Ring: 1..=R (28 bit, skipping 0).
// ------------------------------------------------------------------------------------------
/// forward distance a -> b in the ring 1..=R (R elements)
#[cfg(feature = "groups")]
fn ring_dist(a: u32, b: u32) -> u32 {
    if b >= a {
        b - a
    } else {
        R - a + b
    }
}

#[cfg(feature = "groups")]
fn any_ctr_state() -> (Sessions, u32) {
    let mut s = Sessions::new();
    let ctr = any_u32();
    let d = any_u32();
    assume(ctr >= 1 && ctr <= R);
    assume(d <= GROUP_DATA_CTR_EPOCH);
    // Inv: boundary is 0..=EPOCH ahead of the live counter in the ring, and durable
    let b = Sessions::advance_group_data_ctr_model(ctr, d);
    s.global_group_data_ctr = ctr;
    s.group_data_ctr_boundary = b;
    (s, b)
}

#[cfg(feature = "groups")]
impl Sessions {
    /// independent model of "advance in the ring 1..=R": ((v-1+delta) mod R) + 1
    fn advance_group_data_ctr_model(v: u32, delta: u32) -> u32 {
        // delta <= R here, so one conditional subtraction is the modulo
        let x = (v as u64 - 1) + delta as u64;
        let x = if x >= R as u64 { x - R as u64 } else { x };
        x as u32 + 1
    }
}

/// The ring arithmetic itself: `advance_group_data_ctr` never yields 0, stays in range.
/// (It is NOT a bijection on 1..=R: `& RANGE` maps 2^28 to 0 -> 1, i.e. the step from R goes to
/// 1 via 0 - checked against the model for delta = 1 and delta = EPOCH.)
#[cfg(feature = "groups")]
#[cfg_attr(kani, kani::proof)]
#[cfg_attr(not(kani), test)]
fn c12_q_group_ctr_ring_arith() {
    let v = any_u32();
    assume(v >= 1 && v <= R);
    let n1 = Sessions::advance_group_data_ctr(v, 1);
    vassert!(n1 >= 1 && n1 <= R, "ROLE:group-ctr-stays-in-range-nonzero");
    vassert!(n1 != v, "ROLE:group-ctr-step-changes-value");
    if v < R {
        vassert!(n1 == v + 1, "ROLE:group-ctr-step-is-plus-one");
    } else {
        vcover!(true);
        vassert!(n1 == 1, "ROLE:group-ctr-wraps-to-1");
    }
    let ne = Sessions::advance_group_data_ctr(v, GROUP_DATA_CTR_EPOCH);
    vassert!(ne >= 1 && ne <= R, "ROLE:group-ctr-stays-in-range-nonzero");
    // the boundary is ahead of the value by EPOCH or EPOCH-1 ring steps (0 is skipped by & + fixup)
    let d = ring_dist(v, ne);
    vassert!(d == GROUP_DATA_CTR_EPOCH || d == GROUP_DATA_CTR_EPOCH - 1 || d == GROUP_DATA_CTR_EPOCH + 0,
        "ROLE:group-ctr-boundary-one-epoch-ahead");
}

/// P1: one reservation from every Inv-state.
#[cfg(feature = "groups")]
#[cfg_attr(kani, kani::proof)]
#[cfg_attr(not(kani), test)]
fn c12_q_group_ctr_step() {
    let (mut s, durable) = any_ctr_state();
    let ctr = s.global_group_data_ctr;
    let (v, p) = s.reserve_global_group_data_ctr(DummyCrypto).unwrap();
    vassert!(v == ctr, "ROLE:group-ctr-value-is-live-counter");
    vassert!(v >= 1 && v <= R, "ROLE:group-ctr-stays-in-range-nonzero");
    let now_durable = match p {
        Some(b) => {
            vcover!(true);
            vassert!(b == s.group_data_ctr_boundary, "ROLE:group-ctr-returned-boundary-is-kept");
            vassert!(ctr == durable, "ROLE:group-ctr-persist-demanded-exactly-when-uncovered");
            b
        }
        None => {
            vcover!(true);
            vassert!(s.group_data_ctr_boundary == durable, "ROLE:group-ctr-no-persist-boundary-unchanged");
            durable
        }
    };
    // the caller stores `p` first, then sends v: v is strictly before the durable boundary
    let d = ring_dist(v, now_durable);
    vassert!(d >= 1 && d <= GROUP_DATA_CTR_EPOCH, "ROLE:group-ctr-value-strictly-before-durable-boundary");
    // Inv again
    let d2 = ring_dist(s.global_group_data_ctr, s.group_data_ctr_boundary);
    vassert!(d2 <= GROUP_DATA_CTR_EPOCH, "ROLE:group-ctr-inv-preserved");
    vassert!(s.global_group_data_ctr >= 1 && s.global_group_data_ctr <= R, "ROLE:group-ctr-stays-in-range-nonzero");
    // restart from the durable boundary: resumes at or after the next value, never at v
    let mut s2 = Sessions::new();
    s2.resume_global_group_data_ctr(now_durable);
    vassert!(s2.global_group_data_ctr != v, "ROLE:group-ctr-restart-never-resumes-at-used-value");
    vassert!(ring_dist(v, s2.global_group_data_ctr) >= 1 && ring_dist(v, s2.global_group_data_ctr) <= GROUP_DATA_CTR_EPOCH,
        "ROLE:group-ctr-restart-resumes-past-used-value");
    vassert!(s2.group_data_ctr_boundary == s2.global_group_data_ctr, "ROLE:group-ctr-resume-covers-nothing-yet");
}

/// First use (counter 0 = uninitialised): seeded from the RNG, boundary demanded before use.
#[cfg(feature = "groups")]
#[cfg_attr(kani, kani::proof)]
#[cfg_attr(not(kani), test)]
fn c12_q_group_ctr_first_use() {
    let mut s = Sessions::new();
    let (v, p) = s
        .reserve_global_group_data_ctr(crate::verif_support::vcrypto::VerifCrypto)
        .unwrap();
    vassert!(v >= 1 && v <= R, "ROLE:group-ctr-stays-in-range-nonzero");
    vassert!(p.is_some(), "ROLE:group-ctr-first-use-demands-persist");
    let d = ring_dist(v, p.unwrap());
    vassert!(d >= 1 && d <= GROUP_DATA_CTR_EPOCH, "ROLE:group-ctr-value-strictly-before-durable-boundary");
}

/// P2: 5-operation schedules {reserve(+store)+send, crash before the store, crash after the
/// send} from any stored boundary incl. the wrap point: all values that reached the wire are
/// pairwise distinct.
#[cfg(feature = "groups")]
#[cfg_attr(kani, kani::proof)]
#[cfg_attr(kani, kani::unwind(7))]
#[cfg_attr(not(kani), test)]
fn c12_q_group_ctr_schedule5() {
    let mut s = Sessions::new();
    let start = any_u32();
    assume(start >= 1 && start <= R);
    s.resume_global_group_data_ctr(start);
    let mut stored: u32 = start;
    let mut wire = [0u32; 5];
    let mut nw = 0usize;
    let mut step = 0;
    while step < 5 {
        let crash_before_store = any_bool();
        let (v, p) = s.reserve_global_group_data_ctr(DummyCrypto).unwrap();
        let mut sent = true;
        if let Some(b) = p {
            if crash_before_store {
                // crash: the value never went out; restart from what is durable
                s = Sessions::new();
                s.resume_global_group_data_ctr(stored);
                sent = false;
            } else {
                stored = b;
            }
        }
        if sent {
            wire[nw] = v;
            nw += 1;
            if any_bool() {
                // crash after sending
                s = Sessions::new();
                s.resume_global_group_data_ctr(stored);
            }
        }
        step += 1;
    }
    let mut i = 0;
    while i < nw {
        let mut j = i + 1;
        while j < nw {
            vassert!(wire[i] != wire[j], "ROLE:group-ctr-value-never-reused-across-restarts");
            j += 1;
        }
        i += 1;
    }
    vcover!(nw == 5);
    vcover!(nw >= 2 && start == R);
}

/// `load_persist` resumes exactly at the stored little-endian boundary.
#[cfg(feature = "groups")]
#[cfg_attr(kani, kani::proof)]
#[cfg_attr(kani, kani::unwind(6))]
#[cfg_attr(not(kani), test)]
fn c12_q_group_ctr_load_persist() {
    struct One(u32, bool);
    impl KvBlobStore for One {
        fn load<'a>(&mut self, key: u16, buf: &'a mut [u8]) -> Result<Option<&'a [u8]>, Error> {
            if key == GROUP_DATA_COUNTER_KEY && self.1 {
                buf[..4].copy_from_slice(&self.0.to_le_bytes());
                Ok(Some(&buf[..4]))
            } else {
                Ok(None)
            }
        }
        fn store(&mut self, _key: u16, _data: &[u8], _buf: &mut [u8]) -> Result<(), Error> {
            Ok(())
        }
        fn remove(&mut self, _key: u16, _buf: &mut [u8]) -> Result<(), Error> {
            Ok(())
        }
    }
    let b = any_u32();
    let present = any_bool();
    let mut s = Sessions::new();
    let mut buf = [0u8; 8];
    s.load_persist(One(b, present), &mut buf).unwrap();
    if present && b != 0 {
        vcover!(true);
        vassert!(s.global_group_data_ctr == b && s.group_data_ctr_boundary == b, "ROLE:group-ctr-load-resumes-at-stored-boundary");
    }
    if !present {
        vassert!(s.global_group_data_ctr == 0, "ROLE:group-ctr-absent-key-leaves-uninitialised");
    }
}
