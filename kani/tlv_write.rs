//! C16 - round-trip harnesses (writer -> reader, reader -> writer), mounted into
//! rs-matter/src/tlv/write.rs.
#![allow(unused_imports, dead_code)]
use super::*;
use crate::tlv::{TLVElement, TLVSequence, TLVTag, TLVValue, ToTLV};
use crate::utils::storage::WriteBuf;
use crate::verif_support::*;
use crate::{vassert, vcover, vok};

/// An arbitrary tag of any of the 8 tag forms.
pub(crate) fn any_tag() -> TLVTag {
    let k = any_u8();
    assume(k < 8);
    match k {
        0 => TLVTag::Anonymous,
        1 => TLVTag::Context(any_u8()),
        2 => TLVTag::CommonPrf16(any_u16()),
        3 => TLVTag::CommonPrf32(any_u32()),
        4 => TLVTag::ImplPrf16(any_u16()),
        5 => TLVTag::ImplPrf32(any_u32()),
        6 => TLVTag::FullQual48 {
            vendor_id: any_u16(),
            profile: any_u16(),
            tag: any_u16(),
        },
        _ => TLVTag::FullQual64 {
            vendor_id: any_u16(),
            profile: any_u16(),
            tag: any_u32(),
        },
    }
}

/// read(write(v)) = v for ONE scalar kind and ONE tag form (tag payload and value symbolic).
/// The writers pick the smallest width that holds the value, so even this has value-dependent
/// offsets (measured: u8 1 s, u16 5 s, three kinds in one harness 78 s) - hence one harness per
/// kind (with a context tag) and one per tag form (with a u8 / u64 value).
/// (No `container_len()` here: with a value-dependent element type the container walker is
/// unwound to the bound on infeasible paths - the decoded length is checked on arbitrary bytes
/// against a reference in tlv_read.rs instead.)
macro_rules! rt_harness {
    ($name:ident, $tag:expr, $write:ident, $read:ident, $ty:ty, $role:literal) => {
        #[cfg_attr(kani, kani::proof)]
        #[cfg_attr(kani, kani::unwind(20))]
        #[cfg_attr(not(kani), test)]
        fn $name() {
            let tag: TLVTag = $tag;
            let v = any_u64();
            let mut buf = [0u8; 18];
            let mut wb = WriteBuf::new(&mut buf);
            vok!(wb.$write(&tag, v as $ty), "write-into-large-enough-buffer-succeeds");
            let len = wb.get_tail();
            vassert!(len <= 17, "ROLE:scalar-encoding-at-most-1+8+8-bytes");
            let e = TLVElement::new(&buf[..len]);
            vassert!(e.tag().ok() == Some(tag.clone()), "ROLE:tag-roundtrip");
            vassert!(e.$read().ok() == Some(v as $ty), $role);
            vcover!(len >= 2);
        }
    };
}
// every integer kind under a context tag
rt_harness!(c16_q_roundtrip_ctx_u8, TLVTag::Context(any_u8()), u8, u8, u8, "ROLE:u8-roundtrip");
rt_harness!(c16_q_roundtrip_ctx_u16, TLVTag::Context(any_u8()), u16, u16, u16, "ROLE:u16-roundtrip");
rt_harness!(c16_q_roundtrip_ctx_u32, TLVTag::Context(any_u8()), u32, u32, u32, "ROLE:u32-roundtrip");
rt_harness!(c16_q_roundtrip_ctx_u64, TLVTag::Context(any_u8()), u64, u64, u64, "ROLE:u64-roundtrip");
rt_harness!(c16_q_roundtrip_ctx_i8, TLVTag::Context(any_u8()), i8, i8, i8, "ROLE:i8-roundtrip");
rt_harness!(c16_q_roundtrip_ctx_i16, TLVTag::Context(any_u8()), i16, i16, i16, "ROLE:i16-roundtrip");
rt_harness!(c16_q_roundtrip_ctx_i32, TLVTag::Context(any_u8()), i32, i32, i32, "ROLE:i32-roundtrip");
rt_harness!(c16_q_roundtrip_ctx_i64, TLVTag::Context(any_u8()), i64, i64, i64, "ROLE:i64-roundtrip");
// every tag form with a u8 value (quick) ...
rt_harness!(c16_q_roundtrip_tag_anonymous_u8, TLVTag::Anonymous, u8, u8, u8, "ROLE:u8-roundtrip");
rt_harness!(c16_q_roundtrip_tag_common16_u8, TLVTag::CommonPrf16(any_u16()), u8, u8, u8, "ROLE:u8-roundtrip");
rt_harness!(c16_q_roundtrip_tag_common32_u8, TLVTag::CommonPrf32(any_u32()), u8, u8, u8, "ROLE:u8-roundtrip");
rt_harness!(c16_q_roundtrip_tag_impl16_u8, TLVTag::ImplPrf16(any_u16()), u8, u8, u8, "ROLE:u8-roundtrip");
rt_harness!(c16_q_roundtrip_tag_impl32_u8, TLVTag::ImplPrf32(any_u32()), u8, u8, u8, "ROLE:u8-roundtrip");
rt_harness!(
    c16_q_roundtrip_tag_fq48_u8,
    TLVTag::FullQual48 { vendor_id: any_u16(), profile: any_u16(), tag: any_u16() },
    u8, u8, u8, "ROLE:u8-roundtrip"
);
rt_harness!(
    c16_q_roundtrip_tag_fq64_u8,
    TLVTag::FullQual64 { vendor_id: any_u16(), profile: any_u16(), tag: any_u32() },
    u8, u8, u8, "ROLE:u8-roundtrip"
);
// ... and with the widest values (thorough)
rt_harness!(c16_t_roundtrip_tag_anonymous_u64, TLVTag::Anonymous, u64, u64, u64, "ROLE:u64-roundtrip");
rt_harness!(c16_t_roundtrip_tag_common32_i64, TLVTag::CommonPrf32(any_u32()), i64, i64, i64, "ROLE:i64-roundtrip");
rt_harness!(
    c16_t_roundtrip_tag_fq64_u64,
    TLVTag::FullQual64 { vendor_id: any_u16(), profile: any_u16(), tag: any_u32() },
    u64, u64, u64, "ROLE:u64-roundtrip"
);

/// bool and null under a context tag.
#[cfg_attr(kani, kani::proof)]
#[cfg_attr(kani, kani::unwind(20))]
#[cfg_attr(not(kani), test)]
fn c16_q_roundtrip_ctx_bool_null() {
    let tag = TLVTag::Context(any_u8());
    let b = any_bool();
    let mut buf = [0u8; 4];
    let mut wb = WriteBuf::new(&mut buf);
    vok!(wb.bool(&tag, b), "write-into-large-enough-buffer-succeeds");
    let len = wb.get_tail();
    let e = TLVElement::new(&buf[..len]);
    vassert!(len == 2 && e.tag().ok() == Some(tag.clone()), "ROLE:tag-roundtrip");
    vassert!(e.bool().ok() == Some(b), "ROLE:bool-roundtrip");
    let mut buf = [0u8; 4];
    let mut wb = WriteBuf::new(&mut buf);
    vok!(wb.null(&tag), "write-into-large-enough-buffer-succeeds");
    let len = wb.get_tail();
    let e = TLVElement::new(&buf[..len]);
    vassert!(len == 2 && e.null().is_ok() && e.bool().is_err(), "ROLE:null-roundtrip");
}

/// Octet strings of 0..=4 bytes written through the `tlv()` writer with one of the four
/// length-field widths, read back equal.
fn rt_string(w: u8) {
    let data: [u8; 4] = any_bytes::<4>();
    let tag = TLVTag::Context(any_u8());
    let n = any_usize();
    assume(n <= 4);
    let mut buf = [0u8; 16];
    let val = match w {
        0 => TLVValue::Str8l(&data[..n]),
        1 => TLVValue::Str16l(&data[..n]),
        2 => TLVValue::Str32l(&data[..n]),
        _ => TLVValue::Str64l(&data[..n]),
    };
    let mut wb = WriteBuf::new(&mut buf);
    vok!(wb.tlv(&tag, &val), "write-into-large-enough-buffer-succeeds");
    let len = wb.get_tail();
    vassert!(len == 2 + (1usize << w) + n, "ROLE:string-encoding-length");
    let e = TLVElement::new(&buf[..len]);
    vassert!(e.tag().ok() == Some(tag.clone()), "ROLE:tag-roundtrip");
    let back = vok!(e.str(), "written-string-decodes");
    vassert!(back.len() == n, "ROLE:string-length-roundtrip");
    let mut i = 0;
    while i < n {
        vassert!(back[i] == data[i], "ROLE:string-bytes-roundtrip");
        i += 1;
    }
    vcover!(n == 4);
    vcover!(n == 0);
}
macro_rules! rt_string_harness {
    ($name:ident, $w:expr) => {
        #[cfg_attr(kani, kani::proof)]
        #[cfg_attr(kani, kani::unwind(16))]
        #[cfg_attr(not(kani), test)]
        fn $name() {
            rt_string($w);
        }
    };
}
rt_string_harness!(c16_q_roundtrip_string_len8, 0);
rt_string_harness!(c16_q_roundtrip_string_len16, 1);
rt_string_harness!(c16_q_roundtrip_string_len32, 2);
rt_string_harness!(c16_q_roundtrip_string_len64, 3);

/// `str()` writer (picks the smallest length width itself).
#[cfg_attr(kani, kani::proof)]
#[cfg_attr(kani, kani::unwind(10))]
#[cfg_attr(not(kani), test)]
fn c16_q_roundtrip_str_writer() {
    let mut buf = [0u8; 10];
    let data: [u8; 4] = any_bytes::<4>();
    let n = any_usize();
    assume(n <= 4);
    let c = any_u8();
    let mut wb = WriteBuf::new(&mut buf);
    vok!(wb.str(&TLVTag::Context(c), &data[..n]), "write-into-large-enough-buffer-succeeds");
    let len = wb.get_tail();
    let e = TLVElement::new(&buf[..len]);
    vassert!(e.ctx().ok() == Some(c), "ROLE:tag-roundtrip");
    let back = vok!(e.str(), "written-string-decodes");
    vassert!(back.len() == n, "ROLE:string-length-roundtrip");
    let mut i = 0;
    while i < n {
        vassert!(back[i] == data[i], "ROLE:string-bytes-roundtrip");
        i += 1;
    }
}

/// A struct with two scalar members: both are found by context tag and read back; the
/// container's length is the written length.
#[cfg_attr(kani, kani::proof)]
#[cfg_attr(kani, kani::unwind(14))]
#[cfg_attr(not(kani), test)]
fn c16_x_roundtrip_struct_two_members() {
    let mut buf = [0u8; 12];
    let a = any_u16();
    let b = any_u8();
    let mut wb = WriteBuf::new(&mut buf);
    vok!(wb.start_struct(&TLVTag::Anonymous), "write-into-large-enough-buffer-succeeds");
    vok!(wb.u16(&TLVTag::Context(1), a), "write-into-large-enough-buffer-succeeds");
    vok!(wb.u8(&TLVTag::Context(2), b), "write-into-large-enough-buffer-succeeds");
    vok!(wb.end_container(), "write-into-large-enough-buffer-succeeds");
    let len = wb.get_tail();
    let e = TLVElement::new(&buf[..len]);
    let st = vok!(e.structure(), "written-struct-decodes");
    vassert!(st.ctx(1).and_then(|m| m.u16()).ok() == Some(a), "ROLE:struct-member-roundtrip");
    vassert!(st.ctx(2).and_then(|m| m.u8()).ok() == Some(b), "ROLE:struct-member-roundtrip");
    vassert!(TLVSequence(&buf[..len]).container_len().ok() == Some(len), "ROLE:written-length-equals-decoded-length");
}

/// Re-encoding a decoded single element reproduces its bytes: for every byte string <= 6 that
/// decodes as ONE non-container element spanning the whole input.
#[cfg_attr(kani, kani::proof)]
#[cfg_attr(kani, kani::unwind(12))]
#[cfg_attr(not(kani), test)]
fn c16_x_reencode_single_element_6() {
    let b: [u8; 6] = any_bytes::<6>();
    let len = any_usize();
    assume(len >= 1 && len <= 6);
    let e = TLVElement::new(&b[..len]);
    let ctl = match e.control() {
        Ok(c) => c,
        Err(_) => return,
    };
    if ctl.value_type.is_container() || ctl.value_type.is_container_end() {
        return;
    }
    let (tag, total) = match (e.tag(), TLVSequence(&b[..len]).container_len()) {
        (Ok(t), Ok(l)) => (t, l),
        _ => return,
    };
    if total != len || e.raw_value().is_err() {
        return;
    }
    vcover!(len == 6);
    vcover!(ctl.value_type.variable_size_len() == 2);
    let mut out = [0u8; 8];
    let mut wb = WriteBuf::new(&mut out);
    vok!(e.to_tlv(&tag, &mut wb), "reencode-succeeds");
    let olen = wb.get_tail();
    vassert!(olen == len, "ROLE:reencode-same-length");
    let mut i = 0;
    while i < len {
        vassert!(out[i] == b[i], "ROLE:reencode-same-bytes");
        i += 1;
    }
}

/// ... and for a container (struct/array/list) of <= 6 bytes in total.
#[cfg_attr(kani, kani::proof)]
#[cfg_attr(kani, kani::unwind(9))]
#[cfg_attr(not(kani), test)]
fn c16_x_reencode_container_6() {
    let b: [u8; 6] = any_bytes::<6>();
    let len = any_usize();
    assume(len >= 2 && len <= 6);
    let e = TLVElement::new(&b[..len]);
    let ctl = match e.control() {
        Ok(c) => c,
        Err(_) => return,
    };
    if !ctl.value_type.is_container() {
        return;
    }
    let (tag, total) = match (e.tag(), TLVSequence(&b[..len]).container_len()) {
        (Ok(t), Ok(l)) => (t, l),
        _ => return,
    };
    if total != len {
        return;
    }
    vcover!(len == 6);
    let mut out = [0u8; 8];
    let mut wb = WriteBuf::new(&mut out);
    vok!(e.to_tlv(&tag, &mut wb), "reencode-succeeds");
    let olen = wb.get_tail();
    vassert!(olen == len, "ROLE:reencode-same-length");
    let mut i = 0;
    while i < len {
        vassert!(out[i] == b[i], "ROLE:reencode-same-bytes");
        i += 1;
    }
}

/// Floats round-trip bit for bit (NaN payloads, infinities, signed zero and denormals included).
#[cfg_attr(kani, kani::proof)]
#[cfg_attr(kani, kani::unwind(20))]
#[cfg_attr(not(kani), test)]
fn c16_q_roundtrip_ctx_floats() {
    let tag = TLVTag::Context(any_u8());
    {
        let bits = any_u32();
        let mut buf = [0u8; 12];
        let mut wb = WriteBuf::new(&mut buf);
        vok!(wb.f32(&tag, f32::from_bits(bits)), "write-into-large-enough-buffer-succeeds");
        let len = wb.get_tail();
        vassert!(len == 6, "ROLE:f32-encoding-is-control+tag+4-bytes");
        let e = TLVElement::new(&buf[..len]);
        vassert!(e.tag().ok() == Some(tag.clone()), "ROLE:tag-roundtrip");
        vassert!(e.f32().ok().map(|x| x.to_bits()) == Some(bits), "ROLE:f32-roundtrip-bit-exact");
        vassert!(e.f64().is_err() && e.u32().is_err(), "ROLE:f32-element-is-not-read-as-another-type");
    }
    {
        let bits = any_u64();
        let mut buf = [0u8; 12];
        let mut wb = WriteBuf::new(&mut buf);
        vok!(wb.f64(&tag, f64::from_bits(bits)), "write-into-large-enough-buffer-succeeds");
        let len = wb.get_tail();
        vassert!(len == 10, "ROLE:f64-encoding-is-control+tag+8-bytes");
        let e = TLVElement::new(&buf[..len]);
        vassert!(e.f64().ok().map(|x| x.to_bits()) == Some(bits), "ROLE:f64-roundtrip-bit-exact");
        vassert!(e.f32().is_err() && e.u64().is_err(), "ROLE:f64-element-is-not-read-as-another-type");
    }
}

/// A structure encoded through the DERIVED encoder decodes back to an equal value through the
/// derived decoder: the Interaction Model's TimedRequest (a mandatory u16 + an optional u8 under
/// the 0xFF context tag), every field value, with and without the optional member, under an
/// anonymous or a context tag.
#[cfg_attr(kani, kani::proof)]
#[cfg_attr(kani, kani::unwind(20))]
#[cfg_attr(not(kani), test)]
fn c16_x_derived_struct_roundtrip_timed_req() {
    use crate::im::TimedReq;
    use crate::tlv::{FromTLV, ToTLV};
    let v = TimedReq {
        timeout: any_u16(),
        interaction_model_revision: if any_bool() { Some(any_u8()) } else { None },
    };
    let tag = if any_bool() { TLVTag::Anonymous } else { TLVTag::Context(any_u8()) };
    let mut buf = [0u8; 16];
    let mut wb = WriteBuf::new(&mut buf);
    vok!(v.to_tlv(&tag, &mut wb), "write-into-large-enough-buffer-succeeds");
    let len = wb.get_tail();
    let e = TLVElement::new(&buf[..len]);
    let back = TimedReq::from_tlv(&e);
    vassert!(back.is_ok(), "ROLE:derived-encoding-decodes");
    if let Ok(b) = back {
        vassert!(b.timeout == v.timeout, "ROLE:derived-struct-mandatory-member-roundtrip");
        vassert!(b.interaction_model_revision == v.interaction_model_revision, "ROLE:derived-struct-optional-member-roundtrip");
    }
    vassert!(buf[len - 1] == 0x18, "ROLE:derived-struct-ends-with-end-of-container");
    vcover!(v.interaction_model_revision.is_some() && len > 8);
}
