//! Solver harnesses mounted into rs-matter/src/tlv/write.rs
#![allow(unused_imports, dead_code)]
use super::*;
