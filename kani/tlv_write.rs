//! C16 - round-trip harnesses (writer -> reader, reader -> writer), mounted into
//! rs-matter/src/tlv/write.rs.
#![allow(unused_imports, dead_code)]
use super::*;
use crate::tlv::{TLVElement, TLVSequence, TLVTag, TLVValue, ToTLV};
use crate::utils::storage::WriteBuf;
use crate::verif_support::*;
use crate::{vassert, vcover, vok};

/// An arbitrary tag of any of the 8 tag forms.
pub(crate) fn any_tag() -> TLVTag {
    let k = any_u8();
    assume(k < 8);
    match k {
        0 => TLVTag::Anonymous,
        1 => TLVTag::Context(any_u8()),
        2 => TLVTag::CommonPrf16(any_u16()),
        3 => TLVTag::CommonPrf32(any_u32()),
        4 => TLVTag::ImplPrf16(any_u16()),
        5 => TLVTag::ImplPrf32(any_u32()),
        6 => TLVTag::FullQual48 {
            vendor_id: any_u16(),
            profile: any_u16(),
            tag: any_u16(),
        },
        _ => TLVTag::FullQual64 {
            vendor_id: any_u16(),
            profile: any_u16(),
            tag: any_u32(),
        },
    }
}

/// read(write(v)) = v for ONE scalar kind and ONE tag form (tag payload and value symbolic).
/// The writers pick the smallest width that holds the value, so even this has value-dependent
/// offsets (measured: u8 1 s, u16 5 s, three kinds in one harness 78 s) - hence one harness per
/// kind (with a context tag) and one per tag form (with a u8 / u64 value).
fn rt_scalar(tag: TLVTag, kind: u8) {
    let v = any_u64();
    let mut buf = [0u8; 18];
    let mut wb = WriteBuf::new(&mut buf);
    let r = match kind {
        0 => wb.u8(&tag, v as u8),
        1 => wb.u16(&tag, v as u16),
        2 => wb.u32(&tag, v as u32),
        3 => wb.u64(&tag, v),
        4 => wb.i8(&tag, v as i8),
        5 => wb.i16(&tag, v as i16),
        6 => wb.i32(&tag, v as i32),
        7 => wb.i64(&tag, v as i64),
        8 => wb.bool(&tag, v & 1 == 1),
        _ => wb.null(&tag),
    };
    vok!(r, "write-into-large-enough-buffer-succeeds");
    let len = wb.get_tail();
    vassert!(len <= 17, "ROLE:scalar-encoding-at-most-1+8+8-bytes");
    let e = TLVElement::new(&buf[..len]);
    vassert!(e.tag().ok() == Some(tag.clone()), "ROLE:tag-roundtrip");
    match kind {
        0 => vassert!(e.u8().ok() == Some(v as u8), "ROLE:u8-roundtrip"),
        1 => vassert!(e.u16().ok() == Some(v as u16), "ROLE:u16-roundtrip"),
        2 => vassert!(e.u32().ok() == Some(v as u32), "ROLE:u32-roundtrip"),
        3 => vassert!(e.u64().ok() == Some(v), "ROLE:u64-roundtrip"),
        4 => vassert!(e.i8().ok() == Some(v as i8), "ROLE:i8-roundtrip"),
        5 => vassert!(e.i16().ok() == Some(v as i16), "ROLE:i16-roundtrip"),
        6 => vassert!(e.i32().ok() == Some(v as i32), "ROLE:i32-roundtrip"),
        7 => vassert!(e.i64().ok() == Some(v as i64), "ROLE:i64-roundtrip"),
        8 => vassert!(e.bool().ok() == Some(v & 1 == 1), "ROLE:bool-roundtrip"),
        _ => vassert!(e.null().is_ok(), "ROLE:null-roundtrip"),
    }
    // (no `container_len()` here: with a value-dependent element type the container walker is
    // unwound to the bound on infeasible paths - the decoded length is checked on arbitrary
    // bytes against a reference in tlv_read.rs instead)
    vcover!(len > 2);
}

macro_rules! rt_harness {
    ($name:ident, $tag:expr, $kind:expr) => {
        #[cfg_attr(kani, kani::proof)]
        #[cfg_attr(kani, kani::unwind(20))]
        #[cfg_attr(not(kani), test)]
        fn $name() {
            rt_scalar($tag, $kind);
        }
    };
}
// every scalar kind under a context tag
rt_harness!(c16_q_roundtrip_ctx_u8, TLVTag::Context(any_u8()), 0);
rt_harness!(c16_q_roundtrip_ctx_u16, TLVTag::Context(any_u8()), 1);
rt_harness!(c16_q_roundtrip_ctx_u32, TLVTag::Context(any_u8()), 2);
rt_harness!(c16_q_roundtrip_ctx_u64, TLVTag::Context(any_u8()), 3);
rt_harness!(c16_q_roundtrip_ctx_i8, TLVTag::Context(any_u8()), 4);
rt_harness!(c16_q_roundtrip_ctx_i16, TLVTag::Context(any_u8()), 5);
rt_harness!(c16_q_roundtrip_ctx_i32, TLVTag::Context(any_u8()), 6);
rt_harness!(c16_q_roundtrip_ctx_i64, TLVTag::Context(any_u8()), 7);
rt_harness!(c16_q_roundtrip_ctx_bool, TLVTag::Context(any_u8()), 8);
rt_harness!(c16_q_roundtrip_ctx_null, TLVTag::Context(any_u8()), 9);
// every tag form with a u8 value (quick) ...
rt_harness!(c16_q_roundtrip_tag_anonymous_u8, TLVTag::Anonymous, 0);
rt_harness!(c16_q_roundtrip_tag_common16_u8, TLVTag::CommonPrf16(any_u16()), 0);
rt_harness!(c16_q_roundtrip_tag_common32_u8, TLVTag::CommonPrf32(any_u32()), 0);
rt_harness!(c16_q_roundtrip_tag_impl16_u8, TLVTag::ImplPrf16(any_u16()), 0);
rt_harness!(c16_q_roundtrip_tag_impl32_u8, TLVTag::ImplPrf32(any_u32()), 0);
rt_harness!(
    c16_q_roundtrip_tag_fq48_u8,
    TLVTag::FullQual48 {
        vendor_id: any_u16(),
        profile: any_u16(),
        tag: any_u16(),
    },
    0
);
rt_harness!(
    c16_q_roundtrip_tag_fq64_u8,
    TLVTag::FullQual64 {
        vendor_id: any_u16(),
        profile: any_u16(),
        tag: any_u32(),
    },
    0
);
// ... and with the widest values (thorough)
rt_harness!(c16_t_roundtrip_tag_anonymous_u64, TLVTag::Anonymous, 3);
rt_harness!(c16_t_roundtrip_tag_common32_i64, TLVTag::CommonPrf32(any_u32()), 7);
rt_harness!(
    c16_t_roundtrip_tag_fq64_u64,
    TLVTag::FullQual64 {
        vendor_id: any_u16(),
        profile: any_u16(),
        tag: any_u32(),
    },
    3
);

/// Octet strings of 0..=4 bytes written through the `tlv()` writer with one of the four
/// length-field widths, read back equal.
fn rt_string(w: u8) {
    let data: [u8; 4] = any_bytes::<4>();
    let tag = TLVTag::Context(any_u8());
    let n = any_usize();
    assume(n <= 4);
    let mut buf = [0u8; 16];
    let val = match w {
        0 => TLVValue::Str8l(&data[..n]),
        1 => TLVValue::Str16l(&data[..n]),
        2 => TLVValue::Str32l(&data[..n]),
        _ => TLVValue::Str64l(&data[..n]),
    };
    let mut wb = WriteBuf::new(&mut buf);
    vok!(wb.tlv(&tag, &val), "write-into-large-enough-buffer-succeeds");
    let len = wb.get_tail();
    vassert!(len == 2 + (1usize << w) + n, "ROLE:string-encoding-length");
    let e = TLVElement::new(&buf[..len]);
    vassert!(e.tag().ok() == Some(tag.clone()), "ROLE:tag-roundtrip");
    let back = vok!(e.str(), "written-string-decodes");
    vassert!(back.len() == n, "ROLE:string-length-roundtrip");
    let mut i = 0;
    while i < n {
        vassert!(back[i] == data[i], "ROLE:string-bytes-roundtrip");
        i += 1;
    }
    vassert!(TLVSequence(&buf[..len]).container_len().ok() == Some(len), "ROLE:written-length-equals-decoded-length");
    vcover!(n == 4);
    vcover!(n == 0);
}
macro_rules! rt_string_harness {
    ($name:ident, $w:expr) => {
        #[cfg_attr(kani, kani::proof)]
        #[cfg_attr(kani, kani::unwind(16))]
        #[cfg_attr(not(kani), test)]
        fn $name() {
            rt_string($w);
        }
    };
}
rt_string_harness!(c16_q_roundtrip_string_len8, 0);
rt_string_harness!(c16_q_roundtrip_string_len16, 1);
rt_string_harness!(c16_t_roundtrip_string_len32, 2);
rt_string_harness!(c16_q_roundtrip_string_len64, 3);

/// `str()` writer (picks the smallest length width itself).
#[cfg_attr(kani, kani::proof)]
#[cfg_attr(kani, kani::unwind(10))]
#[cfg_attr(not(kani), test)]
fn c16_q_roundtrip_str_writer() {
    let mut buf = [0u8; 10];
    let data: [u8; 4] = any_bytes::<4>();
    let n = any_usize();
    assume(n <= 4);
    let c = any_u8();
    let mut wb = WriteBuf::new(&mut buf);
    vok!(wb.str(&TLVTag::Context(c), &data[..n]), "write-into-large-enough-buffer-succeeds");
    let len = wb.get_tail();
    let e = TLVElement::new(&buf[..len]);
    vassert!(e.ctx().ok() == Some(c), "ROLE:tag-roundtrip");
    let back = vok!(e.str(), "written-string-decodes");
    vassert!(back.len() == n, "ROLE:string-length-roundtrip");
    let mut i = 0;
    while i < n {
        vassert!(back[i] == data[i], "ROLE:string-bytes-roundtrip");
        i += 1;
    }
}

/// A struct with two scalar members: both are found by context tag and read back; the
/// container's length is the written length.
#[cfg_attr(kani, kani::proof)]
#[cfg_attr(kani, kani::unwind(14))]
#[cfg_attr(not(kani), test)]
fn c16_t_roundtrip_struct_two_members() {
    let mut buf = [0u8; 12];
    let a = any_u16();
    let b = any_u8();
    let mut wb = WriteBuf::new(&mut buf);
    vok!(wb.start_struct(&TLVTag::Anonymous), "write-into-large-enough-buffer-succeeds");
    vok!(wb.u16(&TLVTag::Context(1), a), "write-into-large-enough-buffer-succeeds");
    vok!(wb.u8(&TLVTag::Context(2), b), "write-into-large-enough-buffer-succeeds");
    vok!(wb.end_container(), "write-into-large-enough-buffer-succeeds");
    let len = wb.get_tail();
    let e = TLVElement::new(&buf[..len]);
    let st = vok!(e.structure(), "written-struct-decodes");
    vassert!(st.ctx(1).and_then(|m| m.u16()).ok() == Some(a), "ROLE:struct-member-roundtrip");
    vassert!(st.ctx(2).and_then(|m| m.u8()).ok() == Some(b), "ROLE:struct-member-roundtrip");
    vassert!(TLVSequence(&buf[..len]).container_len().ok() == Some(len), "ROLE:written-length-equals-decoded-length");
}

/// Re-encoding a decoded single element reproduces its bytes: for every byte string <= 6 that
/// decodes as ONE non-container element spanning the whole input.
#[cfg_attr(kani, kani::proof)]
#[cfg_attr(kani, kani::unwind(12))]
#[cfg_attr(not(kani), test)]
fn c16_q_reencode_single_element_6() {
    let b: [u8; 6] = any_bytes::<6>();
    let len = any_usize();
    assume(len >= 1 && len <= 6);
    let e = TLVElement::new(&b[..len]);
    let ctl = match e.control() {
        Ok(c) => c,
        Err(_) => return,
    };
    if ctl.value_type.is_container() || ctl.value_type.is_container_end() {
        return;
    }
    let (tag, total) = match (e.tag(), TLVSequence(&b[..len]).container_len()) {
        (Ok(t), Ok(l)) => (t, l),
        _ => return,
    };
    if total != len || e.raw_value().is_err() {
        return;
    }
    vcover!(len == 6);
    vcover!(ctl.value_type.variable_size_len() == 2);
    let mut out = [0u8; 8];
    let mut wb = WriteBuf::new(&mut out);
    vok!(e.to_tlv(&tag, &mut wb), "reencode-succeeds");
    let olen = wb.get_tail();
    vassert!(olen == len, "ROLE:reencode-same-length");
    let mut i = 0;
    while i < len {
        vassert!(out[i] == b[i], "ROLE:reencode-same-bytes");
        i += 1;
    }
}

/// ... and for a container (struct/array/list) of <= 6 bytes in total.
#[cfg_attr(kani, kani::proof)]
#[cfg_attr(kani, kani::unwind(9))]
#[cfg_attr(not(kani), test)]
fn c16_t_reencode_container_6() {
    let b: [u8; 6] = any_bytes::<6>();
    let len = any_usize();
    assume(len >= 2 && len <= 6);
    let e = TLVElement::new(&b[..len]);
    let ctl = match e.control() {
        Ok(c) => c,
        Err(_) => return,
    };
    if !ctl.value_type.is_container() {
        return;
    }
    let (tag, total) = match (e.tag(), TLVSequence(&b[..len]).container_len()) {
        (Ok(t), Ok(l)) => (t, l),
        _ => return,
    };
    if total != len {
        return;
    }
    vcover!(len == 6);
    let mut out = [0u8; 8];
    let mut wb = WriteBuf::new(&mut out);
    vok!(e.to_tlv(&tag, &mut wb), "reencode-succeeds");
    let olen = wb.get_tail();
    vassert!(olen == len, "ROLE:reencode-same-length");
    let mut i = 0;
    while i < len {
        vassert!(out[i] == b[i], "ROLE:reencode-same-bytes");
        i += 1;
    }
}
