//! Verification support for the solver-based checks (mounted from rs-matter/src/lib.rs under
//! `cfg(any(kani, verif_replay))`).
//!
//! * value source: under Kani every `any_*()` is a fresh symbolic value (`kani::any`); under
//!   `--cfg verif_replay` (native build by the repository's own rustc) it pops the next value of
//!   the counterexample / cover trace that the engine extracted from CBMC (`VERIF_REPLAY_VALUES`).
//! * clock: a symbolic, non-decreasing tick source.
//! * `VerifCrypto`: recording oracle implementation of the `Crypto` trait (see vcrypto.rs).
#![allow(dead_code, static_mut_refs, unused_macros, unused_imports)]

#[path = "/verif/kani/vcrypto.rs"]
pub mod vcrypto;

#[cfg(kani)]
mod src {
    #[inline(never)]
    pub fn any_u64() -> u64 {
        kani::any()
    }
    #[inline(never)]
    pub fn any_u32() -> u32 {
        kani::any()
    }
    #[inline(never)]
    pub fn any_u16() -> u16 {
        kani::any()
    }
    #[inline(never)]
    pub fn any_u8() -> u8 {
        kani::any()
    }
    #[inline(never)]
    pub fn any_bool() -> bool {
        kani::any()
    }
    pub fn assume(c: bool) {
        kani::assume(c)
    }
}

#[cfg(not(kani))]
mod src {
    use std::sync::Mutex;
    static VALS: Mutex<Option<Vec<u64>>> = Mutex::new(None);
    fn pop() -> u64 {
        let mut g = VALS.lock().unwrap_or_else(|e| e.into_inner());
        if g.is_none() {
            let spec = std::env::var("VERIF_REPLAY_VALUES").expect("VERIF_REPLAY_VALUES=v1,v2,...");
            let mut v: Vec<u64> = spec
                .split(',')
                .filter(|s| !s.is_empty())
                .map(|s| s.trim().parse().unwrap())
                .collect();
            v.reverse();
            *g = Some(v);
        }
        match g.as_mut().unwrap().pop() {
            Some(v) => v,
            // A trace that is shorter than the native run: the remaining draws are
            // "don't care" for the solver (sliced away) - use 0.
            None => 0,
        }
    }
    pub fn any_u64() -> u64 {
        pop()
    }
    pub fn any_u32() -> u32 {
        pop() as u32
    }
    pub fn any_u16() -> u16 {
        pop() as u16
    }
    pub fn any_u8() -> u8 {
        pop() as u8
    }
    pub fn any_bool() -> bool {
        pop() & 1 != 0
    }
    pub fn assume(c: bool) {
        if !c {
            // Marker understood by the engine: the trace does not satisfy the harness'
            // assumptions natively => the encoding and the native run disagree.
            println!("VERIF-REPLAY-ASSUME-FAILED");
            std::process::exit(77);
        }
    }
}

pub use src::*;

/// Property assertion with a *role* label (the findings file is keyed by harness + role).
/// Under Kani this is `kani::assert` (gets a reachability twin); natively a panic.
#[macro_export]
macro_rules! vassert {
    ($c:expr, $m:expr $(,)?) => {{
        #[cfg(kani)]
        kani::assert($c, $m);
        #[cfg(not(kani))]
        if !($c) {
            panic!("{}", $m);
        }
    }};
}

/// `Result::unwrap` / `Option::unwrap` for harness code WITHOUT the `core::fmt` machinery that
/// `unwrap()`'s panic path drags into the symbolic execution (measured: minutes and GBs).
/// A failure is reported under the given role.
#[macro_export]
macro_rules! vok {
    ($e:expr, $m:literal $(,)?) => {
        match $e {
            Ok(v) => v,
            Err(_) => {
                // role prefix NEVER: = expected to be unreachable (exempt from the vacuity rule)
                $crate::vassert!(false, concat!("ROLE:NEVER:", $m));
                $crate::verif_support::diverge()
            }
        }
    };
}
#[macro_export]
macro_rules! vsome {
    ($e:expr, $m:literal $(,)?) => {
        match $e {
            Some(v) => v,
            None => {
                $crate::vassert!(false, concat!("ROLE:NEVER:", $m));
                $crate::verif_support::diverge()
            }
        }
    };
}

/// Vacuity witness: the engine requires every cover to be SATISFIED.
#[macro_export]
macro_rules! vcover {
    ($c:expr) => {{
        #[cfg(kani)]
        kani::cover!($c);
        #[cfg(not(kani))]
        {
            let _ = $c;
        }
    }};
}

pub fn diverge() -> ! {
    #[cfg(kani)]
    kani::assume(false);
    #[allow(clippy::empty_loop)]
    loop {
        #[cfg(not(kani))]
        panic!("harness diverged after a failed vok!/vsome!");
    }
}

pub fn any_usize() -> usize {
    any_u64() as usize
}

pub fn any_bytes<const N: usize>() -> [u8; N] {
    let mut b = [0u8; N];
    let mut i = 0;
    while i < N {
        b[i] = any_u8();
        i += 1;
    }
    b
}

/// A symbolic value in `lo..=hi`.
pub fn any_in(lo: u64, hi: u64) -> u64 {
    let v = any_u64();
    assume(v >= lo && v <= hi);
    v
}

// ---------------------------------------------------------------------------------------------
// Clock: a nondeterministic, non-decreasing tick source (embassy ticks, 1 MHz).
// Under Kani harnesses name `stub_instant_now` in `#[kani::stub(embassy_time::Instant::now, ..)]`;
// natively the `embassy-time` driver symbols are defined here (features without `os`).
// ---------------------------------------------------------------------------------------------
pub static mut NOW: u64 = 0;

/// Set the current instant (harnesses that need a known "now").
pub fn set_now(t: u64) {
    unsafe { NOW = t }
}
pub fn now_ticks() -> u64 {
    unsafe { NOW }
}
/// Advance the clock by an arbitrary amount (bounded so that sums do not wrap).
pub fn tick() {
    let d = any_u64();
    assume(d < (1u64 << 40));
    unsafe { NOW = NOW.wrapping_add(d) }
}

pub fn stub_instant_now() -> embassy_time::Instant {
    embassy_time::Instant::from_ticks(now_ticks())
}

#[cfg(not(kani))]
#[no_mangle]
pub fn _embassy_time_now() -> u64 {
    now_ticks()
}
#[cfg(not(kani))]
#[no_mangle]
fn _embassy_time_schedule_wake(_at: u64, _waker: &core::task::Waker) {}

/// Self-test of the SMT-LIB2 route (engine/run.py run_arith): one assertion that holds and one
/// that does not, both depending on checked 64-bit multiplication / division by constants -
/// the operations CBMC 6.11's SMT2 export got wrong before the engine's repair (see
/// fix_overflow_mult). The engine requires exactly {holds: unsat, fails: sat}.
#[cfg_attr(kani, kani::proof)]
#[cfg_attr(not(kani), test)]
#[cfg_attr(not(kani), ignore)]
fn x00_q_smt_selftest() {
    let x = any_u32() as u64;
    let y = x * 11 / 10;
    vassert!(y >= x && y <= x + x / 10 + 1, "ROLE:SELFTEST-holds");
    let z = x * 176 / 100;
    vassert!(z != 3413179140, "ROLE:SELFTEST-fails(x = 1939306330)");
}
