//! Solver harnesses mounted into rs-matter/src/utils/codec/base38.rs
#![allow(unused_imports, dead_code)]
use super::*;
