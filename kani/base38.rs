//! C17 - base-38 packing at chunk level, mounted into rs-matter/src/utils/codec/base38.rs.
//! plus the public `decode` iterator chain on strings of <= 6 characters.
#![allow(unused_imports, dead_code)]
use super::*;
use crate::verif_support::*;
use crate::{vassert, vcover, vok};

/// Every 1-, 2- and 3-byte chunk encodes to 2, 4, 5 legal characters and decodes back.
#[cfg_attr(kani, kani::proof)]
#[cfg_attr(kani, kani::unwind(8))]
#[cfg_attr(not(kani), test)]
fn c17_q_base38_chunk_roundtrip() {
    let b: [u8; 3] = any_bytes::<3>();
    let n = any_usize();
    assume(n >= 1 && n <= 3);
    let mut value = 0u32;
    let mut i = n;
    while i > 0 {
        value = (value << 8) | b[i - 1] as u32;
        i -= 1;
    }
    let chars = match n {
        1 => 2,
        2 => 4,
        _ => 5,
    };
    let mut enc = [0u8; 5];
    let mut k = 0;
    for c in encode_base38(value, chars) {
        vassert!(k < 5, "ROLE:base38-chunk-length");
        enc[k] = c as u8;
        vassert!(decode_char(enc[k]).is_ok(), "ROLE:base38-encoder-emits-legal-characters");
        k += 1;
    }
    vassert!(k == chars, "ROLE:base38-chunk-length");
    let mut dec = [0u8; 3];
    let mut m = 0;
    for r in decode_base38(&enc[..k]) {
        vassert!(m < 3, "ROLE:base38-chunk-length");
        match r {
            Ok(v) => dec[m] = v,
            Err(_) => vassert!(false, "ROLE:NEVER:base38-own-encoding-decodes"),
        }
        m += 1;
    }
    vassert!(m == n, "ROLE:base38-chunk-roundtrip");
    let mut i = 0;
    while i < n {
        vassert!(dec[i] == b[i], "ROLE:base38-chunk-roundtrip");
        i += 1;
    }
    vcover!(n == 3 && b[2] == 0xff);
}

/// Any chunk of <= 5 arbitrary bytes (hostile characters included) decodes without panic,
/// yields at most 3 items, and an illegal character or illegal chunk length is an error.
#[cfg_attr(kani, kani::proof)]
#[cfg_attr(kani, kani::unwind(8))]
#[cfg_attr(not(kani), test)]
fn c17_q_base38_chunk_decode_safe() {
    let b: [u8; 5] = any_bytes::<5>();
    let n = any_usize();
    assume(n <= 5);
    let mut legal = true;
    let mut i = 0;
    while i < n {
        let c = b[i];
        let ok = (c >= b'0' && c <= b'9') || (c >= b'A' && c <= b'Z') || c == b'-' || c == b'.';
        vassert!(decode_char(c).is_ok() == ok, "ROLE:base38-alphabet-exact");
        legal &= ok;
        i += 1;
    }
    let mut m = 0;
    let mut errs = 0;
    for r in decode_base38(&b[..n]) {
        if r.is_err() {
            errs += 1;
        }
        m += 1;
        vassert!(m <= 3, "ROLE:base38-chunk-yields-at-most-3-bytes");
    }
    if n == 1 || n == 3 {
        vassert!(errs >= 1, "ROLE:base38-illegal-chunk-length-refused");
    } else if !legal {
        vcover!(true);
        vassert!(errs >= 1, "ROLE:base38-illegal-character-refused");
    } else {
        vassert!(errs == 0, "ROLE:base38-legal-chunk-decodes");
        vassert!((n == 0 && m == 0) || (n == 2 && m == 1) || (n == 4 && m == 2) || (n == 5 && m == 3), "ROLE:base38-chunk-length");
    }
}

/// The public decoder on every ASCII string of exactly N characters (hostile characters
/// included): an error is reported iff the string has an illegal character or an illegal tail
/// length (the documented contract of `decode` / `QrPayload::parse`); otherwise the number of
/// bytes is the one the chunking prescribes. One harness per length (a symbolic length does not
/// finish: 600 s).
fn decode_refuses_invalid<const N: usize>() {
    let b: [u8; N] = any_bytes::<N>();
    let mut legal = true;
    let mut i = 0;
    while i < N {
        assume(b[i] < 0x80);
        let c = b[i];
        legal &= (c >= b'0' && c <= b'9') || (c >= b'A' && c <= b'Z') || c == b'-' || c == b'.';
        i += 1;
    }
    // SAFETY: all bytes are ASCII
    let s = unsafe { core::str::from_utf8_unchecked(&b) };
    let mut oks = 0;
    let mut errs = 0;
    let mut after_err = 0;
    for r in decode(s) {
        if errs > 0 {
            after_err += 1;
        }
        if r.is_err() {
            errs += 1;
        } else {
            oks += 1;
        }
        vassert!(oks + errs <= N, "ROLE:base38-decode-terminates");
    }
    let tail = N % 5;
    let well_formed = legal && tail != 1 && tail != 3;
    vcover!(legal);
    vcover!(!legal);
    vassert!((errs == 0) == well_formed, "ROLE:base38-decode-errors-exactly-on-malformed-input");
    vassert!(errs <= 1 && after_err == 0, "ROLE:base38-decode-stops-at-first-error");
    let want = (N / 5) * 3 + match tail { 0 => 0, 2 => 1, _ => 2 };
    vassert!(!well_formed || oks == want, "ROLE:base38-decoded-length");
}

macro_rules! decode_len {
    ($name:ident, $n:literal) => {
        #[cfg_attr(kani, kani::proof)]
        #[cfg_attr(kani, kani::unwind(12))]
        #[cfg_attr(not(kani), test)]
        fn $name() {
            decode_refuses_invalid::<$n>();
        }
    };
}
decode_len!(c17_q_base38_decode_refuses_invalid_len2, 2);
decode_len!(c17_q_base38_decode_refuses_invalid_len3, 3);
decode_len!(c17_x_base38_decode_refuses_invalid_len5, 5);
decode_len!(c17_t_base38_decode_refuses_invalid_len4, 4);
decode_len!(c17_x_base38_decode_refuses_invalid_len6, 6);
decode_len!(c17_x_base38_decode_refuses_invalid_len7, 7);
decode_len!(c17_x_base38_decode_refuses_invalid_len9, 9);
