//! Solver harnesses mounted into rs-matter/src/im.rs
#![allow(unused_imports, dead_code)]
use super::*;
