//! Solver harnesses mounted into rs-matter/src/acl.rs
#![allow(unused_imports, dead_code)]
use super::*;
