//! C05 - `AclEntry::allow` against an independently written reference of the Matter Access
//! Control Privilege Granting algorithm; mounted into rs-matter/src/acl.rs.
#![allow(unused_imports, dead_code, static_mut_refs)]
use super::*;
use crate::dm::{Access, DeviceType, Privilege};
use crate::verif_support::*;
use crate::{vassert, vcover, vok};

/// `Accessor` only carries a `&Matter`; `AclEntry::allow` never dereferences it. A reference
/// into an uninitialised static costs nothing (a stack `Matter::new` costs 60 s of symex).
pub(crate) fn uninit_matter() -> &'static Matter<'static> {
    static mut SLOT: core::mem::MaybeUninit<Matter<'static>> = core::mem::MaybeUninit::uninit();
    unsafe { &*core::ptr::addr_of!(SLOT).cast::<Matter<'static>>() }
}

fn any_priv() -> (Privilege, u8) {
    let k = any_u8();
    assume(k < 5);
    match k {
        0 => (Privilege::VIEW, 0x01),
        1 => (Privilege::OPERATE, 0x03),
        2 => (Privilege::MANAGE, 0x07),
        3 => (Privilege::ADMIN, 0x0f),
        _ => (Privilege::PROXYVIEW, 0x00), // grants nothing for ordinary operations
    }
}
pub(crate) fn any_auth() -> AuthMode {
    let k = any_u8();
    assume(k < 3);
    match k {
        0 => AuthMode::Pase,
        1 => AuthMode::Case,
        _ => AuthMode::Group,
    }
}

// ---- reference (written from the specification text; shares no helper with acl.rs) ----------
/// CASE Authenticated Tag subject: 0xFFFF_FFFD_xxxx_vvvv (identifier xxxx, version vvvv); the
/// all-zero tag value is not a tag
fn ref_is_cat(id: u64) -> bool {
    (id >> 32) == 0xFFFF_FFFD && (id & 0xFFFF_FFFF) != 0
}
fn ref_subject_match(acc: &[u64; 4], s: u64) -> bool {
    let mut i = 0;
    while i < 4 {
        let v = acc[i];
        if v != 0 {
            if v == s {
                return true;
            }
            // same tag identifier, accessor's version equal or higher
            if ref_is_cat(v) && ref_is_cat(s) && ((v >> 16) & 0xFFFF) == ((s >> 16) & 0xFFFF) && (v & 0xFFFF) >= (s & 0xFFFF) {
                return true;
            }
        }
        i += 1;
    }
    false
}
/// privilege lattice: the element's access word names the privileges that suffice (bits 0..3 =
/// View, Operate, Manage, Administer) and the operations it supports (bit 4 read, bit 5 write);
/// a write is never satisfied by View.
fn ref_priv_ok(perms: u16, write: bool, granted_bits: u8) -> bool {
    let mask: u16 = if write { 0x000E } else { 0x000F };
    let required = perms & mask;
    let supports = if write { perms & 0x20 != 0 } else { perms & 0x10 != 0 };
    required != 0 && (granted_bits as u16 & required) != 0 && supports
}

struct Case {
    entry: AclEntry,
    fab_e: u8,
    granted: u8,
    em: AuthMode,
    ns: u8,
    s: [u64; 2],
    nt: u8,
    te: [Option<u16>; 2],
    tc: [Option<u32>; 2],
    td: [Option<u32>; 2],
}

/// An arbitrary entry: subjects null / empty / 1 / 2, targets null / empty / 1 / 2 with every
/// endpoint / cluster / device-type combination.
fn any_entry(max_subjects: u8, max_targets: u8) -> Case {
    let fab_e = any_u8();
    assume(fab_e != 0);
    let (pr, granted) = any_priv();
    let em = any_auth();
    let mut entry = AclEntry::new(NonZeroU8::new(fab_e), pr, em);
    let ns = any_u8();
    assume(ns <= 1 + max_subjects);
    let s = [any_u64(), any_u64()];
    if ns == 1 {
        entry.subjects.reinit(Nullable::init_some(Vec::init()));
    }
    if ns >= 2 {
        vok!(entry.add_subject(s[0]), "add-subject");
    }
    if ns >= 3 {
        vok!(entry.add_subject(s[1]), "add-subject");
    }
    let nt = any_u8();
    assume(nt <= 1 + max_targets);
    let mut te = [None; 2];
    let mut tc = [None; 2];
    let mut td = [None; 2];
    let mut i = 0;
    while i < 2 {
        te[i] = if any_bool() { Some(any_u16()) } else { None };
        tc[i] = if any_bool() { Some(any_u32()) } else { None };
        td[i] = if any_bool() { Some(any_u32()) } else { None };
        i += 1;
    }
    if nt == 1 {
        entry.targets.reinit(Nullable::init_some(Vec::init()));
    }
    if nt >= 2 {
        vok!(entry.add_target(Target::new(te[0], tc[0], td[0])), "add-target");
    }
    if nt >= 3 {
        vok!(entry.add_target(Target::new(te[1], tc[1], td[1])), "add-target");
    }
    Case { entry, fab_e, granted, em, ns, s, nt, te, tc, td }
}

fn ref_target_match(c: &Case, i: usize, pe: Option<u16>, pc: Option<u32>, dts: &[u32]) -> bool {
    let e_ok = c.te[i].is_none() || c.te[i] == pe;
    let c_ok = c.tc[i].is_none() || c.tc[i] == pc;
    let d_ok = match c.td[i] {
        None => true,
        Some(d) => {
            let mut found = false;
            let mut k = 0;
            while k < dts.len() {
                if dts[k] == d {
                    found = true;
                }
                k += 1;
            }
            found
        }
    };
    e_ok && c_ok && d_ok
}

fn differential(max_subjects: u8, max_targets: u8, n_dev: usize, aux: bool) {
    let mref = uninit_matter();
    let c = any_entry(max_subjects, max_targets);
    // accessor: mode incl. none, fabric incl. 0, node id, up to 2 tags
    let acc_fab = any_u8();
    let node = any_u64();
    let cat = [any_u32(), any_u32()];
    let mut subj = AccessorSubjects::new(node);
    let mut acc_subjects = [node, 0, 0, 0];
    let mut k = 0;
    let mut slot = 1;
    while k < 2 {
        if cat[k] != 0 {
            vok!(subj.add_catid(cat[k]), "add-catid");
            // slot = first zero entry (node id 0 leaves slot 0 free!)
            if acc_subjects[0] == 0 && slot == 1 && node == 0 {
                acc_subjects[0] = 0xFFFF_FFFD_0000_0000u64 | cat[k] as u64;
            } else {
                acc_subjects[slot] = 0xFFFF_FFFD_0000_0000u64 | cat[k] as u64;
                slot += 1;
            }
        }
        k += 1;
    }
    let am: Option<AuthMode> = if any_bool() { Some(any_auth()) } else { None };
    let accessor = Accessor::new(acc_fab, aux, subj, am, mref);
    let pe: Option<u16> = if any_bool() { Some(any_u16()) } else { None };
    let pc: Option<u32> = if any_bool() { Some(any_u32()) } else { None };
    let path = GenericPath::new(pe, pc, None);
    let write = any_bool();
    let op = if write { Access::WRITE } else { Access::READ };
    let d0 = any_u16();
    let d1 = any_u16();
    let dev = [DeviceType { dtype: d0, drev: 1 }, DeviceType { dtype: d1, drev: 1 }];
    let dts = [d0 as u32, d1 as u32];
    let mut req = AccessReq::new(&accessor, path, op, &dev[..n_dev]);
    let perms_bits = any_u16();
    let perms = Access::from_bits_truncate(perms_bits);
    let has_perms = any_bool();
    if has_perms {
        req.set_target_perms(perms);
    }
    let r = c.entry.allow(&req, aux);

    // ---- reference decision ----
    let subj_ok = c.ns <= 1
        || ref_subject_match(&acc_subjects, c.s[0])
        || (c.ns >= 3 && ref_subject_match(&acc_subjects, c.s[1]));
    let tgt_ok = c.nt <= 1
        || ref_target_match(&c, 0, pe, pc, &dts[..n_dev])
        || (c.nt >= 3 && ref_target_match(&c, 1, pe, pc, &dts[..n_dev]));
    // auxiliary feature: a Group entry without explicit targets does not reach the root endpoint
    let aux_block = aux && matches!(c.em, AuthMode::Group) && pe == Some(0) && c.nt <= 1;
    let priv_ok = has_perms && ref_priv_ok(perms.bits(), write, c.granted);
    let expect = am == Some(c.em) && acc_fab == c.fab_e && subj_ok && tgt_ok && !aux_block && priv_ok;

    vassert!(r == expect, "ROLE:entry-decision-equals-reference-algorithm");
    // the individual guarantees of the property, each as its own role
    if acc_fab != c.fab_e {
        vcover!(true);
        vassert!(!r, "ROLE:entry-of-one-fabric-never-grants-to-accessor-of-another");
    }
    if am != Some(c.em) {
        vassert!(!r, "ROLE:auth-mode-must-match");
    }
    if r {
        vcover!(max_subjects == 0 || c.ns >= 2);
        vcover!(max_targets == 0 || c.nt >= 2);
        vassert!(c.granted != 0, "ROLE:proxy-view-grants-nothing");
        vassert!(!write || c.granted & 0x0e != 0, "ROLE:view-privilege-never-grants-write");
    }
    if c.ns == 1 && am == Some(c.em) && acc_fab == c.fab_e && tgt_ok && !aux_block && priv_ok {
        vcover!(true);
        vassert!(r, "ROLE:empty-subject-list-means-any-subject");
    }
    vcover!(r && (max_subjects < 2 || c.ns == 3));
    vcover!(!r);
}

/// quick: <= 1 subject, <= 1 target, no device types
#[cfg_attr(kani, kani::proof)]
#[cfg_attr(kani, kani::unwind(6))]
#[cfg_attr(not(kani), test)]
fn c05_q_entry_differential_1s_1t() {
    differential(1, 1, 0, false);
}

/// quick: 2 subjects (tag matching), no targets
#[cfg_attr(kani, kani::proof)]
#[cfg_attr(kani, kani::unwind(6))]
#[cfg_attr(not(kani), test)]
fn c05_q_entry_differential_2s_0t() {
    differential(2, 0, 0, false);
}

/// quick: targets with device types, auxiliary feature on
#[cfg_attr(kani, kani::proof)]
#[cfg_attr(kani, kani::unwind(6))]
#[cfg_attr(not(kani), test)]
fn c05_q_entry_differential_0s_2t_devtypes_aux() {
    differential(0, 2, 2, true);
}

/// thorough: everything at once
#[cfg_attr(kani, kani::proof)]
#[cfg_attr(kani, kani::unwind(6))]
#[cfg_attr(not(kani), test)]
fn c05_t_entry_differential_2s_2t_devtypes() {
    differential(2, 2, 2, any_bool());
}

/// Tag matching in isolation, exhaustive over (accessor tag, entry subject).
#[cfg_attr(kani, kani::proof)]
#[cfg_attr(kani, kani::unwind(6))]
#[cfg_attr(not(kani), test)]
fn c05_q_cat_matching() {
    let node = any_u64();
    let cat = any_u32();
    let mut subj = AccessorSubjects::new(node);
    // an operational node id (not itself in the tag range)
    assume(node != 0 && node < 0xFFFF_FFF0_0000_0000 && cat != 0);
    vok!(subj.add_catid(cat), "add-catid");
    let s = any_u64();
    let m = subj.matches(s);
    let acc = [node, 0xFFFF_FFFD_0000_0000u64 | cat as u64, 0, 0];
    vassert!(m == ref_subject_match(&acc, s), "ROLE:subject-matching-equals-reference");
    if (s >> 32) == 0xFFFF_FFFD && (s & 0xffff_ffff) != 0 && (s >> 16) & 0xffff == (cat >> 16) as u64 && s != node {
        vcover!(true);
        vassert!(m == ((cat & 0xffff) as u64 >= (s & 0xffff)), "ROLE:tag-matches-iff-same-id-and-version-not-lower");
    }
}

/// `Access::is_ok` = the privilege lattice, exhaustive over all 2^16 access words.
#[cfg_attr(kani, kani::proof)]
#[cfg_attr(not(kani), test)]
fn c05_q_privilege_lattice() {
    let (p, bits) = any_priv();
    let perms = any_u16();
    let a = Access::from_bits_truncate(perms);
    let write = any_bool();
    let op = if write { Access::WRITE } else { Access::READ };
    vassert!(a.is_ok(op, p) == ref_priv_ok(a.bits(), write, bits), "ROLE:privilege-check-equals-lattice");
    // an operation that is neither read nor write is never ok
    vassert!(!a.is_ok(Access::FAB_SCOPED, p), "ROLE:unknown-operation-denied");
    // monotone: whatever VIEW may do, OPERATE/MANAGE/ADMIN may do
    if a.is_ok(op, Privilege::VIEW) {
        vassert!(a.is_ok(op, Privilege::OPERATE) && a.is_ok(op, Privilege::MANAGE) && a.is_ok(op, Privilege::ADMIN), "ROLE:privilege-lattice-monotone");
    }
    if a.is_ok(op, Privilege::OPERATE) {
        vassert!(a.is_ok(op, Privilege::MANAGE) && a.is_ok(op, Privilege::ADMIN), "ROLE:privilege-lattice-monotone");
    }
    if a.is_ok(op, Privilege::MANAGE) {
        vcover!(true);
        vassert!(a.is_ok(op, Privilege::ADMIN), "ROLE:privilege-lattice-monotone");
    }
}

// ------------------------------------------------------------------------------------------
// Permission oracle for the C06 harnesses (stub of `AccessReq::allow`; C05 above decides what
// `allow` itself does). Records what it was asked.
// ------------------------------------------------------------------------------------------
pub(crate) static mut ORACLE_CALLS: u32 = 0;
pub(crate) static mut ORACLE_ANS: [bool; 4] = [false; 4];
pub(crate) static mut ORACLE_PERMS: u16 = 0;
pub(crate) static mut ORACLE_HAS_PERMS: bool = false;
pub(crate) static mut ORACLE_OP: u16 = 0;
pub(crate) static mut ORACLE_PATH: (Option<u16>, Option<u32>, Option<u32>) = (None, None, None);

pub(crate) fn oracle_reset(ans: [bool; 4]) {
    unsafe {
        ORACLE_CALLS = 0;
        ORACLE_ANS = ans;
        ORACLE_HAS_PERMS = false;
    }
}

pub(crate) fn allow_oracle<'a>(req: &AccessReq<'a>) -> bool
where
    'a: 'a,
{
    unsafe {
        let k = (ORACLE_CALLS % 4) as usize;
        ORACLE_CALLS += 1;
        ORACLE_HAS_PERMS = req.object.target_perms.is_some();
        ORACLE_PERMS = req.object.target_perms.map(|a| a.bits()).unwrap_or(0);
        ORACLE_OP = req.object.operation.bits();
        ORACLE_PATH = (req.object.path.endpoint, req.object.path.cluster, req.object.path.leaf);
        ORACLE_ANS[k]
    }
}
