//! Solver harnesses mounted into rs-matter/src/transport/plain_hdr.rs
#![allow(unused_imports, dead_code)]
use super::*;
