//! Recording crypto oracle (probe)
#![allow(dead_code, static_mut_refs)]
pub struct Rec { pub enc_calls: u32, pub dec_calls: u32, pub verify_calls: u32, pub key0: u8, pub nonce: [u8; 13], pub aad: [u8; 32], pub aad_len: usize, pub data_len: usize, pub accept: bool, pub sig_ok: [bool; 4] }
pub static mut REC: Rec = Rec { enc_calls: 0, dec_calls: 0, verify_calls: 0, key0: 0, nonce: [0; 13], aad: [0; 32], aad_len: 0, data_len: 0, accept: true, sig_ok: [true; 4] };
use rand_core::{CryptoRng, RngCore};

use crate::crypto::{Crypto, CryptoSensitive, CryptoSensitiveRef};
use crate::error::Error;

#[derive(Copy, Clone, Debug)]
pub struct VerifCrypto;

impl Crypto for VerifCrypto {
    type Rand<'a>
        = VerifCrypto
    where
        Self: 'a;

    type WeakRand<'a>
        = VerifCrypto
    where
        Self: 'a;

    type Hash<'a>
        = VerifCrypto
    where
        Self: 'a;

    type Hash1<'a>
        = VerifCrypto
    where
        Self: 'a;

    type Hmac<'a>
        = VerifCrypto
    where
        Self: 'a;

    type Kdf<'a>
        = VerifCrypto
    where
        Self: 'a;

    type PbKdf<'a>
        = VerifCrypto
    where
        Self: 'a;

    type Aead<'a>
        = VerifCrypto
    where
        Self: 'a;

    type PublicKey<'a>
        = VerifCrypto
    where
        Self: 'a;

    type SecretKey<'a>
        = VerifCrypto
    where
        Self: 'a;

    type SigningSecretKey<'a>
        = VerifCrypto
    where
        Self: 'a;

    type EcScalar<'a>
        = VerifCrypto
    where
        Self: 'a;

    type EcPoint<'a>
        = VerifCrypto
    where
        Self: 'a;

    fn rand(&self) -> Result<Self::Rand<'_>, Error> {
        Ok(VerifCrypto)
    }

    fn weak_rand(&self) -> Result<Self::WeakRand<'_>, Error> {
        Ok(VerifCrypto)
    }

    fn hash(&self) -> Result<Self::Hash<'_>, Error> {
        unimplemented!()
    }

    fn hash1(&self) -> Result<Self::Hash<'_>, Error> {
        unimplemented!()
    }

    fn hmac<const KEY_LEN: usize>(
        &self,
        _key: CryptoSensitiveRef<'_, KEY_LEN>,
    ) -> Result<Self::Hmac<'_>, Error> {
        unsafe {
            ACC_LEN = 0;
        }
        Ok(VerifCrypto)
    }

    fn kdf(&self) -> Result<Self::Kdf<'_>, Error> {
        unimplemented!()
    }

    fn pbkdf(&self) -> Result<Self::PbKdf<'_>, Error> {
        unimplemented!()
    }

    fn aead(&self) -> Result<Self::Aead<'_>, Error> {
        Ok(VerifCrypto)
    }

    fn pub_key(
        &self,
        _key: crate::crypto::CanonPkcPublicKeyRef<'_>,
    ) -> Result<Self::PublicKey<'_>, Error> {
        Ok(VerifCrypto)
    }

    fn generate_secret_key(&self) -> Result<Self::SecretKey<'_>, Error> {
        Ok(VerifCrypto)
    }

    fn secret_key(
        &self,
        _key: crate::crypto::CanonPkcSecretKeyRef<'_>,
    ) -> Result<Self::SecretKey<'_>, Error> {
        unimplemented!()
    }

    fn singleton_singing_secret_key(&self) -> Result<Self::SigningSecretKey<'_>, Error> {
        unimplemented!()
    }

    fn ec_scalar(
        &self,
        _scalar: crate::crypto::CanonEcScalarRef<'_>,
    ) -> Result<Self::EcScalar<'_>, Error> {
        unimplemented!()
    }

    fn ec_scalar_mod_p(
        &self,
        _uint: crate::crypto::CanonUint320Ref<'_>,
    ) -> Result<Self::EcScalar<'_>, Error> {
        unimplemented!()
    }

    fn generate_ec_scalar(&self) -> Result<Self::EcScalar<'_>, Error> {
        unimplemented!()
    }

    fn ec_point(
        &self,
        _point: crate::crypto::CanonEcPointRef<'_>,
    ) -> Result<Self::EcPoint<'_>, Error> {
        unimplemented!()
    }

    fn ec_generator_point(&self) -> Result<Self::EcPoint<'_>, Error> {
        unimplemented!()
    }
}

/// Oracle MAC: some fixed FUNCTION of (the first 8 bytes of) the data - enough for code that
/// recomputes a MAC and compares (nothing about its strength is assumed).
static mut ACC: [u8; 8] = [0; 8];
static mut ACC_LEN: usize = 0;
pub fn oracle_hmac(data: &[u8]) -> [u8; 32] {
    let mut out = [0u8; 32];
    let mut i = 0;
    while i < 32 {
        let d = if data.is_empty() { 0 } else { data[i % data.len().min(8)] };
        out[i] = d ^ (i as u8).wrapping_mul(37);
        i += 1;
    }
    out
}

impl<const HASH_LEN: usize> crate::crypto::Digest<HASH_LEN> for VerifCrypto {
    fn update(&mut self, data: &[u8]) -> Result<(), Error> {
        unsafe {
            let mut i = 0;
            while i < data.len() && ACC_LEN < 8 {
                ACC[ACC_LEN] = data[i];
                ACC_LEN += 1;
                i += 1;
            }
        }
        Ok(())
    }

    fn finish_current(&mut self, out: &mut CryptoSensitive<HASH_LEN>) -> Result<(), Error> {
        let h = unsafe { oracle_hmac(&ACC[..ACC_LEN]) };
        let o = out.access_mut();
        let mut i = 0;
        while i < HASH_LEN && i < 32 {
            o[i] = h[i];
            i += 1;
        }
        Ok(())
    }

    fn finish(mut self, out: &mut CryptoSensitive<HASH_LEN>) -> Result<(), Error> {
        crate::crypto::Digest::<HASH_LEN>::finish_current(&mut self, out)
    }
}

impl crate::crypto::Kdf for VerifCrypto {
    fn expand<const IKM_LEN: usize, const KEY_LEN: usize>(
        self,
        _salt: &[u8],
        _ikm: CryptoSensitiveRef<'_, IKM_LEN>,
        _info: &[u8],
        _key: &mut CryptoSensitive<KEY_LEN>,
    ) -> Result<(), Error> {
        unimplemented!()
    }
}

impl crate::crypto::PbKdf for VerifCrypto {
    fn derive<const PASS_LEN: usize, const KEY_LEN: usize>(
        self,
        _password: CryptoSensitiveRef<'_, PASS_LEN>,
        _iter: usize,
        _salt: &[u8],
        _out: &mut CryptoSensitive<KEY_LEN>,
    ) -> Result<(), Error> {
        unimplemented!()
    }
}

impl<const KEY_LEN: usize, const NONCE_LEN: usize> crate::crypto::Aead<KEY_LEN, NONCE_LEN>
    for VerifCrypto
{
    fn encrypt_in_place<'a>(
        &mut self,
        _key: CryptoSensitiveRef<'_, KEY_LEN>,
        _nonce: CryptoSensitiveRef<'_, NONCE_LEN>,
        _aad: &[u8],
        _data: &'a mut [u8],
        _data_len: usize,
    ) -> Result<&'a [u8], Error> {
        unsafe { REC.enc_calls += 1; REC.key0 = _key.access()[0]; REC.nonce.copy_from_slice(&_nonce.access()[..13]); REC.aad_len = _aad.len(); let n = core::cmp::min(_aad.len(), 32); REC.aad[..n].copy_from_slice(&_aad[..n]); REC.data_len = _data_len; }
        // identity cipher, tag = zeros (already in place)
        Ok(_data)
    }

    fn decrypt_in_place<'a>(
        &mut self,
        _key: CryptoSensitiveRef<'_, KEY_LEN>,
        _nonce: CryptoSensitiveRef<'_, NONCE_LEN>,
        _aad: &[u8],
        _data: &'a mut [u8],
    ) -> Result<&'a [u8], Error> {
        unsafe { REC.dec_calls += 1; REC.key0 = _key.access()[0]; REC.nonce.copy_from_slice(&_nonce.access()[..13]); REC.aad_len = _aad.len(); let n = core::cmp::min(_aad.len(), 32); REC.aad[..n].copy_from_slice(&_aad[..n]); REC.data_len = _data.len(); }
        if unsafe { REC.accept } { let l = _data.len(); Ok(&_data[..l.saturating_sub(16)]) } else { Err(crate::error::ErrorCode::InvalidSignature.into()) }
    }
}

impl<const KEY_LEN: usize, const SIGNATURE_LEN: usize>
    crate::crypto::PublicKey<'_, KEY_LEN, SIGNATURE_LEN> for VerifCrypto
{
    fn verify(
        &self,
        _msg: &[u8],
        _signature: CryptoSensitiveRef<SIGNATURE_LEN>,
    ) -> Result<bool, Error> {
        unsafe { REC.verify_calls += 1; Ok(REC.sig_ok[(REC.verify_calls as usize - 1) % 4]) }
    }

    fn write_canon(&self, _key: &mut CryptoSensitive<KEY_LEN>) -> Result<(), Error> {
        unimplemented!()
    }
}

impl<const PUB_KEY_LEN: usize, const SIGNATURE_LEN: usize>
    crate::crypto::SigningSecretKey<'_, PUB_KEY_LEN, SIGNATURE_LEN> for VerifCrypto
{
    type PublicKey<'s>
        = VerifCrypto
    where
        Self: 's;

    fn csr<'s>(&self, _buf: &'s mut [u8]) -> Result<&'s [u8], Error> {
        unimplemented!()
    }

    fn pub_key(&self) -> Result<Self::PublicKey<'_>, Error> {
        unimplemented!()
    }

    fn sign(
        &self,
        _data: &[u8],
        _signature: &mut CryptoSensitive<SIGNATURE_LEN>,
    ) -> Result<(), Error> {
        unimplemented!()
    }
}

impl<
        const KEY_LEN: usize,
        const PUB_KEY_LEN: usize,
        const SIGNATURE_LEN: usize,
        const SHARED_SECRET_LEN: usize,
    > crate::crypto::SecretKey<'_, KEY_LEN, PUB_KEY_LEN, SIGNATURE_LEN, SHARED_SECRET_LEN>
    for VerifCrypto
{
    fn derive_shared_secret(
        &self,
        _peer_pub_key: &Self::PublicKey<'_>,
        _shared_secret: &mut CryptoSensitive<SHARED_SECRET_LEN>,
    ) -> Result<(), Error> {
        unimplemented!()
    }

    fn write_canon(&self, _key: &mut CryptoSensitive<KEY_LEN>) -> Result<(), Error> {
        // oracle key material: whatever is in the buffer
        Ok(())
    }
}

impl<const LEN: usize> crate::crypto::EcScalar<'_, LEN> for VerifCrypto {
    fn mul(&self, _other: &Self) -> Result<Self, Error> {
        unimplemented!()
    }

    fn write_canon(&self, _scalar: &mut CryptoSensitive<LEN>) -> Result<(), Error> {
        unimplemented!()
    }
}

impl<'a, const LEN: usize, const SCALAR_LEN: usize> crate::crypto::EcPoint<'a, LEN, SCALAR_LEN>
    for VerifCrypto
{
    type Scalar<'s> = VerifCrypto;

    fn is_valid_pubkey(&self) -> Result<bool, Error> {
        unimplemented!()
    }

    fn neg(&self) -> Result<Self, Error> {
        unimplemented!()
    }

    fn mul(&self, _scalar: &Self::Scalar<'a>) -> Result<Self, Error> {
        unimplemented!()
    }

    fn add_mul(
        &self,
        _s1: &Self::Scalar<'a>,
        _p2: &Self,
        _s2: &Self::Scalar<'a>,
    ) -> Result<Self, Error> {
        unimplemented!()
    }

    fn write_canon(&self, _point: &mut CryptoSensitive<LEN>) -> Result<(), Error> {
        unimplemented!()
    }
}

impl RngCore for VerifCrypto {
    fn next_u32(&mut self) -> u32 {
        crate::verif_support::any_u32()
    }

    fn next_u64(&mut self) -> u64 {
        unimplemented!()
    }

    fn fill_bytes(&mut self, _dest: &mut [u8]) {
        unimplemented!()
    }

    fn try_fill_bytes(&mut self, _dest: &mut [u8]) -> Result<(), rand_core::Error> {
        unimplemented!()
    }
}

impl CryptoRng for VerifCrypto {}
