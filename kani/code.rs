//! Solver harnesses mounted into rs-matter/src/pairing/code.rs
#![allow(unused_imports, dead_code)]
use super::*;
