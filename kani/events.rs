//! C12 (event number) harnesses, mounted into rs-matter/src/im/events.rs.
#![allow(unused_imports, dead_code)]
use super::*;
use crate::verif_support::*;
use crate::{vassert, vcover, vok};
use core::cell::{Cell, RefCell};

const E: u64 = EVENT_NUMBER_EPOCH_SIZE;

/// In-memory durable store for the event epoch: decodes the stored TLV (anonymous unsigned
/// integer, 1/2/4/8 bytes) by hand and keeps the value; `fail` makes a store fail (symbolic
/// fault injection).
struct Kv {
    val: Cell<u64>,
    has: Cell<bool>,
    fail: Cell<bool>,
    bad: Cell<bool>,
}
impl Kv {
    fn new() -> Self {
        Self {
            val: Cell::new(0),
            has: Cell::new(false),
            fail: Cell::new(false),
            bad: Cell::new(false),
        }
    }
    fn durable(&self) -> Option<u64> {
        if self.has.get() {
            Some(self.val.get())
        } else {
            None
        }
    }
}
struct KvS<'a>(&'a Kv);
impl KvBlobStore for KvS<'_> {
    fn load<'a>(&mut self, _key: u16, _buf: &'a mut [u8]) -> Result<Option<&'a [u8]>, Error> {
        Ok(None)
    }
    fn store(&mut self, key: u16, data: &[u8], _buf: &mut [u8]) -> Result<(), Error> {
        if self.0.fail.get() {
            return Err(ErrorCode::StdIoError.into());
        }
        // anonymous tag, unsigned int: control byte 0x04 + log2(width)
        let ok = key == EVENT_EPOCH_KEY
            && !data.is_empty()
            && data[0] >= 0x04
            && data[0] <= 0x07
            && data.len() == 1 + (1usize << (data[0] - 4));
        if !ok {
            self.0.bad.set(true);
            return Ok(());
        }
        let mut v: u64 = 0;
        let mut i = data.len() - 1;
        while i >= 1 {
            v = (v << 8) | data[i] as u64;
            i -= 1;
        }
        self.0.val.set(v);
        self.0.has.set(true);
        Ok(())
    }
    fn remove(&mut self, _key: u16, _buf: &mut [u8]) -> Result<(), Error> {
        Ok(())
    }
}
impl KvBlobStoreAccess for &Kv {
    fn access<F, R>(&self, f: F) -> R
    where
        F: FnOnce(&mut dyn KvBlobStore, &mut [u8]) -> R,
    {
        let mut s = KvS(self);
        let mut buf = [0u8; 12];
        f(&mut s, &mut buf)
    }
}

/// Inv(next, durable): the durable boundary D is the smallest multiple of E that is >= next
/// (so D-E < next <= D); or the factory-fresh state (next = 1, nothing stored).
/// The harness names `m = next % E` once - the same term the code computes - and states
/// everything else relative to m, so that the solver never has to reason about divisibility.
///
/// P1: one `next_event_number` from every Inv-state, with a symbolic store failure.
#[cfg_attr(kani, kani::proof)]
#[cfg_attr(kani, kani::unwind(10))]
#[cfg_attr(not(kani), test)]
fn c12_q_event_number_step() {
    let mut ev: EventsInner<16> = EventsInner::new();
    let kv = Kv::new();
    let fresh = any_bool();
    let start = if fresh { 1 } else { any_u64() };
    assume(start >= 1 && start < u64::MAX - 2 * E);
    let m = start % E;
    let up = if m == 0 { 0 } else { E - m };
    let big_d = start + up; // the multiple of E at or above `start`
    let durable = if fresh {
        None
    } else {
        kv.val.set(big_d);
        kv.has.set(true);
        Some(big_d)
    };
    ev.next_event_number = start;
    kv.fail.set(any_bool());
    let mut persist = Persist::new(&kv);
    let r = ev.next_event_number(&mut persist);
    let after = kv.durable();
    vassert!(!kv.bad.get(), "ROLE:event-epoch-blob-is-a-tlv-unsigned");
    match r {
        Ok(n) => {
            vassert!(n == start, "ROLE:event-number-is-next");
            vassert!(after.is_some(), "ROLE:event-boundary-stored-before-first-use");
            let d = after.unwrap();
            vassert!(n < d, "ROLE:event-number-strictly-below-durable-boundary");
            vassert!(ev.next_event_number == n + 1, "ROLE:event-number-advances-by-one");
            // Inv again: the boundary is E (fresh), D + E (boundary reached) or D (inside epoch);
            // each is a multiple of E because D is.
            if start == 1 {
                vcover!(fresh);
                vassert!(d == E, "ROLE:event-fresh-start-stores-first-epoch");
            } else if m == 0 {
                vcover!(true);
                vassert!(d == big_d + E, "ROLE:event-boundary-extended-by-one-epoch-when-reached");
            } else {
                vcover!(true);
                vassert!(d == big_d, "ROLE:event-boundary-kept-inside-epoch");
            }
            vassert!(ev.next_event_number <= d && d - ev.next_event_number < E, "ROLE:event-inv-preserved");
        }
        Err(_) => {
            vcover!(true);
            vassert!(kv.fail.get(), "ROLE:event-number-fails-only-on-store-failure");
            vassert!(ev.next_event_number == start, "ROLE:event-failed-store-hands-out-nothing");
            vassert!(after == durable, "ROLE:event-failed-store-leaves-boundary");
        }
    }
}

/// Restart: whatever boundary was stored through `Persist::store_tlv` is what `load` resumes at.
#[cfg_attr(kani, kani::proof)]
#[cfg_attr(kani, kani::unwind(10))]
#[cfg_attr(not(kani), test)]
fn c12_q_event_epoch_load_roundtrip() {
    let kv = Kv::new();
    let d = any_u64();
    let mut p = Persist::new(&kv);
    vok!(p.store_tlv(EVENT_EPOCH_KEY, d), "harness-setup-call-succeeds");
    vassert!(!kv.bad.get() && kv.durable() == Some(d), "ROLE:event-epoch-blob-is-a-tlv-unsigned");
    // the same bytes through the real decoder
    let mut buf = [0u8; 12];
    let mut wb = crate::utils::storage::WriteBuf::new(&mut buf);
    vok!(d.to_tlv(&TLVTag::Anonymous, &mut wb), "harness-setup-call-succeeds");
    let len = wb.get_tail();
    let mut ev: EventsInner<16> = EventsInner::new();
    vok!(ev.load(&buf[..len]), "harness-setup-call-succeeds");
    vassert!(ev.next_event_number == d, "ROLE:event-restart-resumes-at-stored-boundary");
}

/// P2: k = 4 operations {emit, crash+restart} from the factory-fresh state or from any stored
/// boundary; the numbers that were handed out strictly increase (hence are pairwise distinct).
#[cfg_attr(kani, kani::proof)]
#[cfg_attr(kani, kani::unwind(10))]
#[cfg_attr(not(kani), test)]
fn c12_x_event_number_schedule4() {
    let mut ev: EventsInner<16> = EventsInner::new();
    let kv = Kv::new();
    if any_bool() {
        let q = any_u64();
        assume(q >= 1 && q < (1u64 << 40));
        kv.val.set(q * E);
        kv.has.set(true);
        ev.next_event_number = q * E; // a real restart resumes AT the boundary (see load_roundtrip)
    }
    let mut last: u64 = 0;
    let mut step = 0;
    while step < 4 {
        if any_bool() {
            // crash + restart
            ev.next_event_number = if kv.has.get() { kv.val.get() } else { 1 };
        } else {
            kv.fail.set(any_bool());
            let mut persist = Persist::new(&kv);
            if let Ok(n) = ev.next_event_number(&mut persist) {
                vassert!(n > last, "ROLE:event-numbers-strictly-increase-across-restarts");
                last = n;
            }
        }
        step += 1;
    }
    vcover!(last > 0);
}
