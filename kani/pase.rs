//! C02 - commissioning window state machine, mounted into rs-matter/src/sc/pase.rs.
#![allow(unused_imports, dead_code, static_mut_refs)]
use super::*;
use crate::verif_support::*;
use crate::{vassert, vcover, vok};

static mut MDNS_NOTIFS: u32 = 0;
fn reset_notifs() {
    unsafe { MDNS_NOTIFS = 0 }
}
fn notifs() -> u32 {
    unsafe { MDNS_NOTIFS }
}
fn notify() {
    unsafe { MDNS_NOTIFS += 1 }
}

fn open_basic(p: &mut Pase, salt_len: usize, timeout: u16, disc: u16, opener: Option<CommWindowOpener>) -> Result<(), Error> {
    let salt = [0x5au8; 40];
    let pw = crate::sc::pase::spake2p::Spake2pVerifierPassword::new();
    p.open_basic_comm_window(1, &salt[..salt_len], pw.reference(), disc, timeout, opener, notify, |_, _| {})
}

/// Opening: succeeds iff no window is open, the timeout is within [180, 900] s and the salt
/// length within [16, 32]; an open window is advertised (mDNS notifier called), a refused open
/// changes nothing.
#[cfg_attr(kani, kani::proof)]
#[cfg_attr(kani, kani::unwind(42))]
#[cfg_attr(kani, kani::stub(embassy_time::Instant::now, crate::verif_support::stub_instant_now))]
#[cfg_attr(not(kani), test)]
fn c02_q_open_window_conditions() {
    let mut p = Pase::new();
    set_now(any_u64());
    let already = any_bool();
    if already {
        vok!(open_basic(&mut p, 16, 180, 1, None), "first-open");
        vassert!(p.comm_window_state().is_open(), "ROLE:window-state-reports-open");
    }
    reset_notifs();
    let salt_len = any_usize();
    assume(salt_len <= 40);
    let timeout = any_u16();
    let r = open_basic(&mut p, salt_len, timeout, any_u16(), None);
    let legal = !already && timeout >= 180 && timeout <= 900 && salt_len >= 16 && salt_len <= 32;
    vassert!(r.is_ok() == legal, "ROLE:open-succeeds-iff-closed-and-parameters-legal");
    if r.is_ok() {
        vcover!(timeout == 900 && salt_len == 32);
        vassert!(p.comm_window_state().is_open(), "ROLE:window-state-reports-open");
        vassert!(notifs() == 1, "ROLE:opening-announces-on-mdns");
        let w = p.comm_window().unwrap();
        vassert!(w.pake_failures == 0, "ROLE:new-window-starts-with-zero-failures");
        vassert!(w.window_expiry.as_ticks() == now_ticks().saturating_add(timeout as u64 * embassy_time::TICK_HZ), "ROLE:window-expires-after-the-requested-timeout");
    } else {
        vassert!(p.comm_window_state().is_open() == already, "ROLE:refused-open-changes-nothing");
        vassert!(notifs() == 0, "ROLE:refused-open-announces-nothing");
        if already {
            vcover!(true);
            let busy = match &r {
                Err(e) => e.code() == ErrorCode::Busy,
                Ok(_) => false,
            };
            vassert!(busy, "ROLE:open-while-open-is-Busy");
        }
    }
}

/// Failure accounting: every failed proof is counted; the window is revoked exactly when the
/// count reaches 20 (and announced); the in-progress handshake marker is cleared.
#[cfg_attr(kani, kani::proof)]
#[cfg_attr(kani, kani::unwind(42))]
#[cfg_attr(kani, kani::stub(embassy_time::Instant::now, crate::verif_support::stub_instant_now))]
#[cfg_attr(not(kani), test)]
fn c02_q_failure_accounting_and_revocation() {
    let mut p = Pase::new();
    set_now(any_u64());
    let open = any_bool();
    let k = any_u8();
    if open {
        vok!(open_basic(&mut p, 16, 180, 7, None), "open");
        p.comm_window.as_opt_mut().unwrap().pake_failures = k;
    }
    // with or without an in-progress handshake marker (the responder clears it before it
    // reports a failed confirmation, other paths leave it set)
    let marker = any_bool();
    if marker {
        let sid = any_u32();
        assume(sid <= 0x0fff_ffff);
        p.session_timeout = Some(SessionEstTimeout {
            session_est_expiry: embassy_time::Instant::from_ticks(any_u64()),
            exch_id: crate::transport::exchange::ExchangeId::new(sid, (any_u8() & 15) as usize),
        });
    }
    vcover!(marker && open);
    vcover!(!marker && open);
    reset_notifs();
    vok!(p.record_pake_failure(notify, |_, _| {}), "record");
    vassert!(p.session_timeout.is_none(), "ROLE:failure-clears-the-in-progress-handshake");
    if !open {
        vassert!(p.comm_window().is_none() && notifs() == 0, "ROLE:failure-without-window-changes-nothing");
    } else if k >= 19 {
        vcover!(k == 19);
        vcover!(k == 255);
        vassert!(p.comm_window().is_none(), "ROLE:window-revoked-at-the-20th-failure");
        vassert!(!p.comm_window_state().is_open(), "ROLE:window-state-reports-closed");
        vassert!(notifs() == 1, "ROLE:revocation-withdraws-the-mdns-announcement");
    } else {
        vcover!(k == 18);
        vassert!(p.comm_window().map(|w| w.pake_failures) == Some(k + 1), "ROLE:each-failure-counted-once");
        vassert!(notifs() == 0, "ROLE:window-stays-open-below-20-failures");
    }
}

/// 20 failures in a row from a fresh window revoke it - not 19, not 21.
#[cfg_attr(kani, kani::proof)]
#[cfg_attr(kani, kani::unwind(42))]
#[cfg_attr(kani, kani::stub(embassy_time::Instant::now, crate::verif_support::stub_instant_now))]
#[cfg_attr(not(kani), test)]
fn c02_q_twenty_failures_from_fresh_window() {
    let mut p = Pase::new();
    vok!(open_basic(&mut p, 16, 180, 7, None), "open");
    let mut i = 0;
    while i < 20 {
        vassert!(p.comm_window().is_some(), "ROLE:window-open-before-the-20th-failure");
        vok!(p.record_pake_failure(|| {}, |_, _| {}), "record");
        i += 1;
    }
    vassert!(p.comm_window().is_none(), "ROLE:window-revoked-at-the-20th-failure");
}

/// Expiry poll and explicit close.
#[cfg_attr(kani, kani::proof)]
#[cfg_attr(kani, kani::unwind(42))]
#[cfg_attr(kani, kani::stub(embassy_time::Instant::now, crate::verif_support::stub_instant_now))]
#[cfg_attr(not(kani), test)]
fn c02_q_expiry_and_close() {
    let mut p = Pase::new();
    let t0 = any_u64();
    assume(t0 < (1u64 << 62));
    set_now(t0);
    let open = any_bool();
    let timeout = any_u16();
    assume(timeout >= 180 && timeout <= 900);
    if open {
        vok!(open_basic(&mut p, 20, timeout, 7, None), "open");
    }
    let t1 = any_u64();
    assume(t1 >= t0);
    set_now(t1);
    reset_notifs();
    let r = vok!(p.check_comm_window_timeout(notify, |_, _| {}), "poll");
    let expired = open && t1 > t0 + timeout as u64 * embassy_time::TICK_HZ;
    vassert!(r == expired, "ROLE:poll-closes-iff-now-is-past-the-expiry");
    vassert!(p.comm_window_state().is_open() == (open && !expired), "ROLE:window-open-until-expiry-only");
    vassert!(notifs() == if expired { 1 } else { 0 }, "ROLE:expiry-withdraws-the-mdns-announcement");
    vcover!(expired);
    vcover!(open && !expired);
    // explicit close
    reset_notifs();
    let was_open = p.comm_window().is_some();
    let c = vok!(p.close_comm_window(notify, |_, _| {}), "close");
    vassert!(c == was_open && p.comm_window().is_none(), "ROLE:close-closes");
    vassert!(notifs() == if was_open { 1 } else { 0 }, "ROLE:close-withdraws-the-mdns-announcement");
}

/// thorough: every sequence of 4 operations (open with arbitrary parameters / failed proof /
/// expiry poll after an arbitrary time step / explicit close) from a fresh `Pase` stays in step
/// with a three-variable reference model (open?, failures, expiry instant): the window is open
/// exactly when the model says so, never survives its 20th failed proof or its expiry, and a
/// re-opened window starts counting from zero.
#[cfg_attr(kani, kani::proof)]
#[cfg_attr(kani, kani::unwind(42))]
#[cfg_attr(kani, kani::stub(embassy_time::Instant::now, crate::verif_support::stub_instant_now))]
#[cfg_attr(not(kani), test)]
fn c02_t_window_lifecycle_4ops() {
    let mut p = Pase::new();
    let mut now = any_u64();
    assume(now < (1u64 << 60));
    set_now(now);
    // reference model
    let mut m_open = false;
    let mut m_fail: u8 = 0;
    let mut m_exp: u64 = 0;
    let mut step = 0;
    while step < 4 {
        let op = any_u8();
        assume(op < 4);
        match op {
            0 => {
                let salt_len = any_usize();
                assume(salt_len <= 40);
                let timeout = any_u16();
                let r = open_basic(&mut p, salt_len, timeout, 7, None);
                let legal = !m_open && timeout >= 180 && timeout <= 900 && salt_len >= 16 && salt_len <= 32;
                vassert!(r.is_ok() == legal, "ROLE:open-succeeds-iff-closed-and-parameters-legal");
                if legal {
                    m_open = true;
                    m_fail = 0;
                    m_exp = now + timeout as u64 * embassy_time::TICK_HZ;
                }
            }
            1 => {
                // a few failures at once, so that 4 operations can reach the 20th
                let k = any_u8();
                assume(k >= 1 && k <= 20);
                let mut i = 0;
                while i < k {
                    vok!(p.record_pake_failure(notify, |_, _| {}), "record");
                    if m_open {
                        m_fail += 1;
                        if m_fail >= 20 {
                            m_open = false;
                        }
                    }
                    i += 1;
                }
            }
            2 => {
                let dt = any_u64();
                assume(dt < (1u64 << 40));
                now += dt;
                set_now(now);
                let r = vok!(p.check_comm_window_timeout(notify, |_, _| {}), "poll");
                let expired = m_open && now > m_exp;
                vassert!(r == expired, "ROLE:poll-closes-iff-now-is-past-the-expiry");
                if expired {
                    m_open = false;
                }
            }
            _ => {
                let c = vok!(p.close_comm_window(notify, |_, _| {}), "close");
                vassert!(c == m_open, "ROLE:close-closes");
                m_open = false;
            }
        }
        vassert!(p.comm_window_state().is_open() == m_open, "ROLE:window-open-exactly-when-the-reference-model-says-so");
        if m_open {
            let w = p.comm_window().unwrap();
            vassert!(w.pake_failures == m_fail, "ROLE:each-failure-counted-once");
            vassert!(w.window_expiry.as_ticks() == m_exp, "ROLE:window-expires-after-the-requested-timeout");
        }
        step += 1;
    }
    vcover!(m_open && m_fail == 19);
}
