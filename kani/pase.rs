//! Solver harnesses mounted into rs-matter/src/sc/pase.rs
#![allow(unused_imports, dead_code)]
use super::*;
