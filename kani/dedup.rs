//! C04 - solver harnesses for the receive window (`RxCtrState`) and the group sender table
//! (`GroupCtrStore`), mounted into rs-matter/src/transport/dedup.rs.
//!
//! Window model (written from the property text, not from the code):
//!   alpha(max, bitmap) = { max } u { max-1-i | bit i of bitmap set }      (the counters "seen")
//! Assertion messages are *roles*: the findings file is keyed by (harness, role).
#![allow(unused_imports, dead_code)]
use super::*;
use crate::verif_support::*;
use crate::{vassert, vcover};

const W: u32 = 16;

/// Unicast (numeric) model: has `g` been accepted according to the state?
fn seen(max: u32, bm: u16, g: u32) -> bool {
    g == max || (g < max && max - g <= W && (bm & (1u16 << (max - g - 1))) != 0)
}
fn too_old(max: u32, g: u32) -> bool {
    g < max && max - g > W
}

/// Group (modular) model.
fn fwd_dist(max: u32, g: u32) -> u32 {
    g.wrapping_sub(max)
}
fn is_fwd(max: u32, g: u32) -> bool {
    let d = fwd_dist(max, g);
    d >= 1 && d <= i32::MAX as u32
}
fn seen_ro(max: u32, bm: u16, g: u32) -> bool {
    let back = max.wrapping_sub(g);
    g == max || (!is_fwd(max, g) && back <= W && (bm & (1u16 << (back - 1))) != 0)
}
fn too_old_ro(max: u32, g: u32) -> bool {
    g != max && !is_fwd(max, g) && max.wrapping_sub(g) > W
}

/// Any synchronised window state (P1 pre-state).
pub(crate) fn any_state() -> RxCtrState {
    RxCtrState {
        max_ctr: any_u32(),
        ctr_bitmap: any_u16(),
        synced: true,
    }
}

/// The state every `Session` starts in (see `Session::new` / `Session::init`); the session
/// harness `c04_q_session_initial_window_state` pins this to what `Sessions::add` produces.
pub(crate) fn initial_state() -> RxCtrState {
    RxCtrState::unsynced()
}
pub(crate) fn state_eq(a: &RxCtrState, b: &RxCtrState) -> bool {
    a.max_ctr == b.max_ctr && a.ctr_bitmap == b.ctr_bitmap && a.synced == b.synced
}
pub(crate) fn state_fields(a: &RxCtrState) -> (u32, u16, bool) {
    (a.max_ctr, a.ctr_bitmap, a.synced)
}

// ------------------------------------------------------------------------------------------
// P1: one step from EVERY (max, bitmap), secure unicast session (encrypted, no roll-over).
// Space: 2^32 (max) x 2^16 (bitmap) x 2^32 (ctr) x 2^32 (ghost) - decided exhaustively.
// ------------------------------------------------------------------------------------------
#[cfg_attr(kani, kani::proof)]
#[cfg_attr(not(kani), test)]
fn c04_q_step_unicast_decision() {
    let mut s = any_state();
    let (max, bm) = (s.max_ctr, s.ctr_bitmap);
    let ctr = any_u32();
    let r = s.post_recv(ctr, true, false);

    if seen(max, bm, ctr) {
        vcover!(true);
        vassert!(!r, "ROLE:seen-counter-rejected");
    }
    if too_old(max, ctr) {
        vcover!(true);
        vassert!(!r, "ROLE:older-than-window-rejected");
    }
    if ctr > max {
        vcover!(true);
        vassert!(r, "ROLE:newer-than-max-accepted");
    }
    if ctr < max && max - ctr <= W && !seen(max, bm, ctr) {
        vcover!(true);
        vassert!(r, "ROLE:in-window-unseen-accepted");
    }
    if r {
        vassert!(seen(s.max_ctr, s.ctr_bitmap, ctr), "ROLE:accepted-counter-recorded");
        vassert!(s.max_ctr >= max, "ROLE:max-never-decreases");
    } else {
        vassert!(s.max_ctr == max && s.ctr_bitmap == bm, "ROLE:rejected-leaves-state-unchanged");
    }
    vcover!(r);
    vcover!(!r);
}

/// Frame condition for a ghost counter `g != ctr`: what the window says about g is preserved
/// by receiving another counter - as long as g is still inside the (new) window.
#[cfg_attr(kani, kani::proof)]
#[cfg_attr(not(kani), test)]
fn c04_q_step_unicast_frame() {
    let mut s = any_state();
    let (max, bm) = (s.max_ctr, s.ctr_bitmap);
    let ctr = any_u32();
    let g = any_u32();
    assume(g != ctr);
    let r = s.post_recv(ctr, true, false);
    let (max2, bm2) = (s.max_ctr, s.ctr_bitmap);

    let g_seen = seen(max, bm, g);
    let g_in_new_window = g <= max2 && max2 - g <= W;
    if g_seen {
        // accepted once => never accepted again: still seen, or now older than the window
        vcover!(r);
        vassert!(
            seen(max2, bm2, g) || too_old(max2, g),
            "ROLE:seen-ghost-stays-rejected"
        );
    }
    if !g_seen && !too_old(max, g) && g_in_new_window {
        // never accepted, still inside the window => must remain acceptable
        let gap = if ctr > max { ctr - max } else { 0 };
        if gap < W {
            vcover!(r && gap > 1);
            vassert!(!seen(max2, bm2, g), "ROLE:unseen-ghost-stays-acceptable(jump<16)");
        } else {
            vcover!(r);
            vassert!(!seen(max2, bm2, g), "ROLE:unseen-ghost-stays-acceptable(jump>=16)");
        }
    }
}

/// Unsecured sessions: same as above plus "a restart of the peer's counter is accepted".
#[cfg_attr(kani, kani::proof)]
#[cfg_attr(not(kani), test)]
fn c04_q_step_unsecured() {
    let mut s = any_state();
    let (max, bm) = (s.max_ctr, s.ctr_bitmap);
    let ctr = any_u32();
    let r = s.post_recv(ctr, false, false);
    if seen(max, bm, ctr) {
        vassert!(!r, "ROLE:seen-counter-rejected");
    }
    if ctr > max {
        vassert!(r, "ROLE:newer-than-max-accepted");
    }
    if too_old(max, ctr) {
        vcover!(true);
        vassert!(r, "ROLE:unsecured-restart-accepted");
        vassert!(s.max_ctr == ctr, "ROLE:unsecured-restart-resynchronises");
    }
    if r {
        vassert!(seen(s.max_ctr, s.ctr_bitmap, ctr), "ROLE:accepted-counter-recorded");
    } else {
        vassert!(s.max_ctr == max && s.ctr_bitmap == bm, "ROLE:rejected-leaves-state-unchanged");
    }
}

// ------------------------------------------------------------------------------------------
// P1 for group senders (modular comparison).
// ------------------------------------------------------------------------------------------
#[cfg_attr(kani, kani::proof)]
#[cfg_attr(not(kani), test)]
fn c04_q_step_group_window() {
    let mut s = any_state();
    let (max, bm) = (s.max_ctr, s.ctr_bitmap);
    let ctr = any_u32();
    let g = any_u32();
    assume(g != ctr);
    let r = s.post_recv(ctr, true, true);
    let (max2, bm2) = (s.max_ctr, s.ctr_bitmap);

    if seen_ro(max, bm, ctr) {
        vcover!(true);
        vassert!(!r, "ROLE:group-seen-counter-rejected");
    }
    if too_old_ro(max, ctr) {
        vcover!(true);
        vassert!(!r, "ROLE:group-older-than-window-rejected");
    }
    if is_fwd(max, ctr) {
        vcover!(max > 0xffff_fff0 && ctr < 16);
        vassert!(r, "ROLE:group-forward-accepted(with roll-over)");
        vassert!(max2 == ctr, "ROLE:group-forward-becomes-max");
    }
    if r {
        vassert!(seen_ro(max2, bm2, ctr), "ROLE:group-accepted-counter-recorded");
    } else {
        vassert!(max2 == max && bm2 == bm, "ROLE:group-rejected-leaves-state-unchanged");
    }
    // stated bound of the modular scheme: a jump of at most 2^31-1-16, so that a seen counter
    // cannot come round to the "forward" half again within one step
    if seen_ro(max, bm, g) && fwd_dist(max, ctr) <= i32::MAX as u32 - W {
        vcover!(r);
        vassert!(
            seen_ro(max2, bm2, g) || too_old_ro(max2, g),
            "ROLE:group-seen-ghost-stays-rejected"
        );
    }
}

// ------------------------------------------------------------------------------------------
// P2: histories from the REAL initial state of every session, `RxCtrState::new(0)`.
// ------------------------------------------------------------------------------------------
#[cfg_attr(kani, kani::proof)]
#[cfg_attr(not(kani), test)]
fn c04_q_hist3_from_new() {
    let mut s = initial_state();
    let c1 = any_u32();
    let c2 = any_u32();
    let c3 = any_u32();
    let r1 = s.post_recv(c1, true, false);
    let r2 = s.post_recv(c2, true, false);
    let r3 = s.post_recv(c3, true, false);
    if r1 && r2 {
        vassert!(c1 != c2, "ROLE:no-double-accept");
    }
    if r1 && r3 {
        vassert!(c1 != c3, "ROLE:no-double-accept");
    }
    if r2 && r3 {
        vassert!(c2 != c3, "ROLE:no-double-accept");
    }
    // strictly newer than everything accepted so far => accepted
    vassert!(r1, "ROLE:first-message-accepted");
    if c2 > c1 {
        vassert!(r2, "ROLE:newer-than-all-accepted");
    }
    if c3 > c2 && c3 > c1 {
        vassert!(r3, "ROLE:newer-than-all-accepted");
    }
    // c3 was overtaken by c2 (c1 < c3 < c2), is inside the window and was never received
    if r1 && c2 > c1 && c3 > c1 && c3 < c2 && c2 - c3 <= W {
        if c2 - c1 < W {
            vcover!(true);
            vassert!(r3, "ROLE:overtaken-counter-accepted-once(jump<16)");
        } else {
            vcover!(true);
            vassert!(r3, "ROLE:overtaken-counter-accepted-once(jump>=16)");
        }
    }
    vcover!(r1 && r2 && r3);
}

/// The first message of a session need not be the first one the peer sent: a counter just
/// below the first one received, never received before, is in the window and must be accepted.
#[cfg_attr(kani, kani::proof)]
#[cfg_attr(not(kani), test)]
fn c04_q_hist_first_message_overtaken() {
    let mut s = initial_state();
    let c1 = any_u32();
    let c2 = any_u32();
    let r1 = s.post_recv(c1, true, false);
    let r2 = s.post_recv(c2, true, false);
    vassert!(r1, "ROLE:first-message-accepted");
    if r1 && c2 < c1 && c1 - c2 <= W {
        if c1 > W {
            vcover!(true);
            vassert!(r2, "ROLE:first-message-overtook-earlier-one(first>16)");
        } else {
            vcover!(true);
            vassert!(r2, "ROLE:first-message-overtook-earlier-one(first<=16)");
        }
    }
    if c1 == 0 {
        vcover!(true);
        vassert!(r1, "ROLE:first-message-with-counter-0-accepted");
    }
}

#[cfg_attr(kani, kani::proof)]
#[cfg_attr(not(kani), test)]
fn c04_t_hist4_from_new() {
    let mut s = initial_state();
    let c = [any_u32(), any_u32(), any_u32(), any_u32()];
    let mut r = [false; 4];
    let mut i = 0;
    while i < 4 {
        r[i] = s.post_recv(c[i], true, false);
        i += 1;
    }
    let mut a = 0;
    while a < 4 {
        let mut b = a + 1;
        while b < 4 {
            if r[a] && r[b] {
                vassert!(c[a] != c[b], "ROLE:no-double-accept");
            }
            b += 1;
        }
        a += 1;
    }
    // c[3] overtaken by c[2], never received, inside the window; all earlier jumps < 16
    if r[0] && r[1] && r[2] && c[0] < c[1] && c[1] < c[3] && c[3] < c[2] && c[2] - c[3] <= W
        && c[2] - c[1] < W
    {
        vcover!(true);
        vassert!(r[3], "ROLE:overtaken-counter-accepted-once(jump<16)");
    }
    vcover!(r[0] && r[1] && r[2] && r[3]);
}

// ------------------------------------------------------------------------------------------
// Group sender table.
// ------------------------------------------------------------------------------------------
#[cfg(feature = "groups")]
fn any_store(n: usize) -> GroupCtrStore {
    let mut st = GroupCtrStore::new();
    let mut i = 0;
    while i < n {
        let e = GroupCtrEntry {
            fab_idx: any_u8(),
            src_nodeid: any_u64(),
            rx_ctr: any_state(),
            last_used: any_u32(),
        };
        let _ = st.entries.push(e);
        i += 1;
    }
    st.clock = any_u32();
    // representation invariant: one entry per sender
    let mut a = 0;
    while a < n {
        let mut b = a + 1;
        while b < n {
            assume(
                st.entries[a].fab_idx != st.entries[b].fab_idx
                    || st.entries[a].src_nodeid != st.entries[b].src_nodeid,
            );
            b += 1;
        }
        a += 1;
    }
    st
}

/// Table with 2 tracked senders (not full): per-sender isolation + window semantics.
#[cfg(feature = "groups")]
#[cfg_attr(kani, kani::proof)]
#[cfg_attr(kani, kani::unwind(5))]
#[cfg_attr(not(kani), test)]
fn c04_q_group_store_2() {
    let mut st = any_store(2);
    let o_f = st.entries[1].fab_idx;
    let o_n = st.entries[1].src_nodeid;
    let o_max = st.entries[1].rx_ctr.max_ctr;
    let o_bm = st.entries[1].rx_ctr.ctr_bitmap;
    let t_max = st.entries[0].rx_ctr.max_ctr;
    let t_bm = st.entries[0].rx_ctr.ctr_bitmap;
    let t_f = st.entries[0].fab_idx;
    let t_n = st.entries[0].src_nodeid;

    let f = any_u8();
    let n = any_u64();
    let c = any_u32();
    let r = st.post_recv(f, n, c);

    if f == t_f && n == t_n {
        vcover!(true);
        // same sender: window semantics with roll-over, other entry untouched
        if seen_ro(t_max, t_bm, c) {
            vassert!(!r, "ROLE:group-table-duplicate-rejected");
        }
        if too_old_ro(t_max, c) {
            vassert!(!r, "ROLE:group-table-old-rejected");
        }
        if is_fwd(t_max, c) {
            vassert!(r, "ROLE:group-table-forward-accepted");
        }
        vassert!(st.entries.len() == 2, "ROLE:group-table-no-spurious-entry");
        vassert!(
            st.entries[1].fab_idx == o_f
                && st.entries[1].src_nodeid == o_n
                && st.entries[1].rx_ctr.max_ctr == o_max
                && st.entries[1].rx_ctr.ctr_bitmap == o_bm,
            "ROLE:group-table-other-sender-untouched"
        );
    } else if f == o_f && n == o_n {
        vcover!(true);
        vassert!(
            st.entries[0].rx_ctr.max_ctr == t_max && st.entries[0].rx_ctr.ctr_bitmap == t_bm,
            "ROLE:group-table-other-sender-untouched"
        );
    } else {
        vcover!(true);
        // unknown sender: trusted once, recorded with its counter, nobody else disturbed
        vassert!(r, "ROLE:group-table-new-sender-trusted-first");
        vassert!(st.entries.len() == 3, "ROLE:group-table-new-sender-recorded");
        vassert!(
            st.entries[2].fab_idx == f
                && st.entries[2].src_nodeid == n
                && st.entries[2].rx_ctr.max_ctr == c,
            "ROLE:group-table-new-sender-recorded"
        );
        vassert!(
            st.entries[0].rx_ctr.max_ctr == t_max
                && st.entries[0].rx_ctr.ctr_bitmap == t_bm
                && st.entries[1].rx_ctr.max_ctr == o_max
                && st.entries[1].rx_ctr.ctr_bitmap == o_bm,
            "ROLE:group-table-other-sender-untouched"
        );
        // ... and the same counter from it again is a duplicate
        let r2 = st.post_recv(f, n, c);
        vassert!(!r2, "ROLE:group-table-new-sender-replay-rejected");
    }
}

/// The real capacity (16 entries), full table: an unknown sender evicts exactly the least
/// recently used entry and nothing else.
#[cfg(feature = "groups")]
#[cfg_attr(kani, kani::proof)]
#[cfg_attr(kani, kani::unwind(18))]
#[cfg_attr(not(kani), test)]
fn c04_t_group_store_full_eviction() {
    let mut st = any_store(MAX_GROUP_CTR_ENTRIES);
    let gi = any_usize();
    assume(gi < MAX_GROUP_CTR_ENTRIES);
    let g_f = st.entries[gi].fab_idx;
    let g_n = st.entries[gi].src_nodeid;
    let g_max = st.entries[gi].rx_ctr.max_ctr;
    let g_bm = st.entries[gi].rx_ctr.ctr_bitmap;
    let g_used = st.entries[gi].last_used;
    let mut min_used = u32::MAX;
    let mut i = 0;
    while i < MAX_GROUP_CTR_ENTRIES {
        if st.entries[i].last_used < min_used {
            min_used = st.entries[i].last_used;
        }
        i += 1;
    }

    let f = any_u8();
    let n = any_u64();
    let c = any_u32();
    let mut known = false;
    let mut i = 0;
    while i < MAX_GROUP_CTR_ENTRIES {
        if st.entries[i].fab_idx == f && st.entries[i].src_nodeid == n {
            known = true;
        }
        i += 1;
    }
    let r = st.post_recv(f, n, c);
    vassert!(st.entries.len() == MAX_GROUP_CTR_ENTRIES, "ROLE:group-table-capacity-kept");
    if !known {
        vcover!(true);
        vassert!(r, "ROLE:group-table-new-sender-trusted-first");
        let mut found = false;
        let mut i = 0;
        while i < MAX_GROUP_CTR_ENTRIES {
            if st.entries[i].fab_idx == f
                && st.entries[i].src_nodeid == n
                && st.entries[i].rx_ctr.max_ctr == c
            {
                found = true;
            }
            i += 1;
        }
        vassert!(found, "ROLE:group-table-new-sender-recorded");
        // the ghost entry survives unless it was (one of) the least recently used
        if g_used > min_used {
            vcover!(true);
            vassert!(
                st.entries[gi].fab_idx == g_f
                    && st.entries[gi].src_nodeid == g_n
                    && st.entries[gi].rx_ctr.max_ctr == g_max
                    && st.entries[gi].rx_ctr.ctr_bitmap == g_bm,
                "ROLE:group-table-eviction-only-lru"
            );
        }
    } else if !(g_f == f && g_n == n) {
        vassert!(
            st.entries[gi].rx_ctr.max_ctr == g_max && st.entries[gi].rx_ctr.ctr_bitmap == g_bm,
            "ROLE:group-table-other-sender-untouched"
        );
    }
}
