//! Solver harnesses mounted into rs-matter/src/im/subscriptions.rs
#![allow(unused_imports, dead_code)]
use super::*;
