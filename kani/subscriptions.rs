//! C13 - pending-change table, purge, report timing; mounted into
//! rs-matter/src/im/subscriptions.rs.
#![allow(unused_imports, dead_code)]
use super::*;
use crate::verif_support::*;
use crate::{vassert, vcover, vok};

fn any_entry(next: u64) -> ChangedAttr {
    let id = any_u64();
    assume(id >= 1 && id < next);
    ChangedAttr {
        endpoint: any_u16(),
        cluster: any_u32(),
        attr: any_u32(),
        change_id: id,
    }
}

/// Any table with `n` entries (concrete or wildcard on any axis), ids below `next_change_id`.
fn any_table(n: usize) -> ChangedAttrs {
    let mut t = ChangedAttrs::new();
    let next = any_u64();
    assume(next >= 1 && next < u64::MAX - 4);
    t.next_change_id = next;
    let mut i = 0;
    while i < n {
        let _ = t.entries.push(any_entry(next));
        i += 1;
    }
    t
}

fn any_sub(next: u64) -> Subscription {
    let w = any_u64();
    assume(w < next);
    Subscription {
        ids: SubscriptionIds {
            id: any_u32(),
            fab_idx: NonZeroU8::new(1).unwrap(),
            peer_node_id: any_u64(),
        },
        min_int_secs: any_u16(),
        max_int_secs: any_u16(),
        reported_at: Instant::from_ticks(any_u64()),
        retry_at: Instant::from_ticks(any_u64()),
        fail_count: any_u8(),
        max_seen_attr_change_id: w,
        max_seen_event_number: any_u64(),
    }
}

#[cfg(kani)]
fn promote_unreachable(_t: &mut ChangedAttrs, _new: ChangedAttr) {
    // proved unreachable while the table is not full
    kani::assert(false, "ROLE:NEVER:promotion-unreachable-below-capacity");
}

/// record(): the change gets a fresh, larger id and is covered from then on; whatever was
/// covered before stays covered (coalescing into an existing entry refreshes - never lowers -
/// its id); table of <= 3 entries, so the overflow path is proved unreachable.
#[cfg_attr(kani, kani::proof)]
#[cfg_attr(kani, kani::unwind(6))]
#[cfg_attr(kani, kani::stub(ChangedAttrs::promote_and_insert, promote_unreachable))]
#[cfg_attr(not(kani), test)]
fn c13_q_record_keeps_coverage() {
    let n = any_usize();
    assume(n <= 3);
    let mut t = any_table(n);
    let next = t.next_change_id;
    // ghost: an earlier change that some subscriber has not seen yet
    let (ge, gc, ga) = (any_u16(), any_u32(), any_u32());
    assume(ge != WILDCARD_ENDPOINT && gc != WILDCARD_CLUSTER && ga != WILDCARD_ATTR);
    let since = any_u64();
    assume(since < next);
    let covered_before = t.contains_since(ge, gc, ga, since);
    let wildcard = any_bool();
    let (e, c, a) = (any_u16(), any_u32(), any_u32());
    assume(e != WILDCARD_ENDPOINT && c != WILDCARD_CLUSTER && a != WILDCARD_ATTR);
    let we = any_bool();
    let wc = any_bool();
    let id = if wildcard {
        t.record_wildcard(if we { None } else { Some(e) }, if wc { None } else { Some(c) })
    } else {
        t.record(e, c, a)
    };
    vassert!(id == next, "ROLE:change-gets-the-next-id");
    vassert!(t.watermark() == id && t.next_change_id == id + 1, "ROLE:watermark-is-the-newest-id");
    // every subscriber watermark below the new id sees the change
    let s2 = any_u64();
    assume(s2 < id);
    vassert!(t.contains_since(e, c, a, s2), "ROLE:recorded-change-is-pending-for-every-older-watermark");
    vassert!(t.any_since(s2), "ROLE:recorded-change-makes-subscriptions-reportable");
    if covered_before {
        vcover!(true);
        vassert!(t.contains_since(ge, gc, ga, since), "ROLE:pending-change-stays-pending-across-record(coalescing keeps the max id)");
    }
    vassert!(t.entries.len() <= n + 1, "ROLE:record-adds-at-most-one-entry");
    let mut i = 0;
    while i < t.entries.len() {
        vassert!(t.entries[i].change_id <= id, "ROLE:no-entry-id-above-watermark");
        i += 1;
    }
    vcover!(t.entries.len() < n + 1);
}

/// purge_up_to(th): exactly the entries with id <= th go; a change pending for a watermark
/// >= th stays pending.
#[cfg_attr(kani, kani::proof)]
#[cfg_attr(kani, kani::unwind(6))]
#[cfg_attr(not(kani), test)]
fn c13_q_purge_up_to() {
    let n = any_usize();
    assume(n <= 3);
    let mut t = any_table(n);
    let (ge, gc, ga) = (any_u16(), any_u32(), any_u32());
    let since = any_u64();
    let th = any_u64();
    assume(since >= th);
    let covered_before = t.contains_since(ge, gc, ga, since);
    let any_before = t.any_since(since);
    t.purge_up_to(th);
    vassert!(t.contains_since(ge, gc, ga, since) == covered_before, "ROLE:purge-keeps-everything-newer-than-threshold");
    vassert!(t.any_since(since) == any_before, "ROLE:purge-keeps-everything-newer-than-threshold");
    if th > 0 {
        let mut i = 0;
        while i < t.entries.len() {
            vassert!(t.entries[i].change_id > th, "ROLE:purge-removes-everything-up-to-threshold");
            i += 1;
        }
        vcover!(t.entries.len() < n);
    }
}

/// SubscriptionsInner::purge_reported_changes: a change that some live subscription - in the
/// table OR in flight (priming / reporting: moved out of the table, still counted) - has not
/// seen yet must survive the purge.
#[cfg_attr(kani, kani::proof)]
#[cfg_attr(kani, kani::unwind(6))]
#[cfg_attr(not(kani), test)]
fn c13_q_purge_respects_every_live_subscription() {
    let mut st: SubscriptionsInner<3> = SubscriptionsInner::new();
    let n = any_usize();
    assume(n <= 2);
    st.changed_attrs = any_table(n);
    let next = st.changed_attrs.next_change_id;
    let in_table = any_usize();
    assume(in_table <= 2);
    let mut i = 0;
    while i < in_table {
        let _ = st.subscriptions.push(any_sub(next));
        i += 1;
    }
    // one more subscription may be in flight: accepted (counted) but moved into its ReportContext
    let in_flight = any_bool();
    let flight_w = any_u64();
    assume(flight_w < next);
    st.subscriptions_count = in_table + if in_flight { 1 } else { 0 };
    let flight_is_report = any_bool();
    if in_flight && flight_is_report {
        let mut s = any_sub(next);
        s.max_seen_attr_change_id = flight_w;
        st.reporting = Some(s);
    }
    let (ge, gc, ga) = (any_u16(), any_u32(), any_u32());
    let mut pend_tbl = [false; 2];
    let mut k = 0;
    while k < in_table {
        pend_tbl[k] = st.changed_attrs.contains_since(ge, gc, ga, st.subscriptions[k].max_seen_attr_change_id);
        k += 1;
    }
    let pend_flight = in_flight && st.changed_attrs.contains_since(ge, gc, ga, flight_w);

    st.purge_reported_changes();

    let mut k = 0;
    while k < in_table {
        if pend_tbl[k] {
            vcover!(true);
            vassert!(
                st.changed_attrs.contains_since(ge, gc, ga, st.subscriptions[k].max_seen_attr_change_id),
                "ROLE:purge-keeps-changes-pending-for-a-subscription-in-the-table"
            );
        }
        k += 1;
    }
    if pend_flight {
        if flight_is_report {
            vcover!(true);
            vassert!(st.changed_attrs.contains_since(ge, gc, ga, flight_w), "ROLE:purge-keeps-changes-pending-for-the-subscription-being-reported");
        } else {
            vcover!(in_table == 0);
            vassert!(st.changed_attrs.contains_since(ge, gc, ga, flight_w), "ROLE:purge-keeps-changes-pending-for-the-subscription-being-primed");
        }
    }
    vcover!(st.changed_attrs.entries.len() < n);
}

/// coarsen / covers: the coarser entry covers everything the original covered.
#[cfg_attr(kani, kani::proof)]
#[cfg_attr(not(kani), test)]
fn c13_q_coarsen_covers() {
    let x = ChangedAttr { endpoint: any_u16(), cluster: any_u32(), attr: any_u32(), change_id: any_u64() };
    let y = ChangedAttr { endpoint: any_u16(), cluster: any_u32(), attr: any_u32(), change_id: any_u64() };
    let (e, c, a) = (any_u16(), any_u32(), any_u32());
    let lvl = if any_bool() { 1 } else { 2 };
    if let Some(cx) = x.coarsen(lvl) {
        vcover!(true);
        vassert!(cx.covers(&x), "ROLE:coarsened-entry-covers-the-original");
        if x.matches(e, c, a) {
            vassert!(cx.matches(e, c, a), "ROLE:coarsened-entry-matches-everything-the-original-matched");
        }
    }
    // covers is sound w.r.t. matches, reflexive and transitive enough for the table logic
    if x.covers(&y) && y.matches(e, c, a) {
        vcover!(true);
        vassert!(x.matches(e, c, a), "ROLE:covers-implies-matches-superset");
    }
    vassert!(x.covers(&x), "ROLE:covers-reflexive");
}

/// The overflow path on a full table: 13 fixed entries that cannot be grouped with each other
/// plus 3 arbitrary ones, then one more change. Everything that was pending stays pending.
#[cfg_attr(kani, kani::proof)]
#[cfg_attr(kani, kani::unwind(18))]
#[cfg_attr(not(kani), test)]
fn c13_x_promotion_full_table_3sym() {
    let mut t = ChangedAttrs::new();
    let mut next: u64 = 1;
    let mut i: u16 = 0;
    while i < 13 {
        let e = ChangedAttr { endpoint: 100 + i, cluster: 7, attr: 1, change_id: next };
        let _ = t.entries.push(e);
        next += 1;
        i += 1;
    }
    let mut k = 0;
    while k < 3 {
        let e = ChangedAttr { endpoint: any_u16(), cluster: any_u32(), attr: any_u32(), change_id: next };
        assume(e.endpoint < 4);
        let _ = t.entries.push(e);
        next += 1;
        k += 1;
    }
    t.next_change_id = next;
    let since = any_u64();
    assume(since < next);
    let (ge, gc, ga) = (any_u16(), any_u32(), any_u32());
    assume(ge < 4 && gc != WILDCARD_CLUSTER && ga != WILDCARD_ATTR);
    let covered_before = t.contains_since(ge, gc, ga, since);
    let (e, c, a) = (any_u16(), any_u32(), any_u32());
    assume(e < 4 && c != WILDCARD_CLUSTER && a != WILDCARD_ATTR);
    let id = t.record(e, c, a);
    vassert!(t.entries.len() <= MAX_CHANGED_ATTRS, "ROLE:table-never-exceeds-capacity");
    vassert!(t.contains_since(e, c, a, id - 1), "ROLE:recorded-change-is-pending-for-every-older-watermark");
    if covered_before {
        vcover!(true);
        vassert!(t.contains_since(ge, gc, ga, since), "ROLE:pending-change-stays-pending-across-record(coalescing keeps the max id)");
    }
    vcover!(t.entries.len() < MAX_CHANGED_ATTRS);
}

/// The last-ditch overflow path on a CONCRETE full table in which nothing can be grouped (16
/// entries on 16 different endpoints): the 17th, uncovered change collapses the table into a
/// global wildcard - which must carry the NEW change's id, so that the change is pending for a
/// subscriber that had seen everything before it, and everything older stays pending too.
fn promotion_global_fallback(e: u16, c: u32, a: u32) {
    let mut t = ChangedAttrs::new();
    let mut next: u64 = 1;
    let mut i: u16 = 0;
    while i < 16 {
        let _ = t.entries.push(ChangedAttr { endpoint: 100 + i, cluster: 7, attr: 1, change_id: next });
        next += 1;
        i += 1;
    }
    t.next_change_id = next;
    assume(e < 100 && c != WILDCARD_CLUSTER && a != WILDCARD_ATTR);
    let id = t.record(e, c, a);
    vassert!(id == 17 && t.watermark() == 17, "ROLE:change-gets-the-next-id");
    vassert!(t.entries.len() <= MAX_CHANGED_ATTRS, "ROLE:table-never-exceeds-capacity");
    // pending for the subscriber that was completely up to date (watermark 16) ...
    vassert!(t.contains_since(e, c, a, 16) && t.any_since(16), "ROLE:overflowing-change-is-pending-for-an-up-to-date-subscriber");
    // ... and every older change is still pending for every older watermark
    let k = any_u16();
    assume(k < 16);
    let since = any_u64();
    assume(since <= k as u64);
    vassert!(t.contains_since(100 + k, 7, 1, since), "ROLE:pending-change-stays-pending-across-record(coalescing keeps the max id)");
    vcover!(t.entries.len() == 1);
}

/// quick: the new change is concrete (endpoint 5, cluster 9, attribute 2), the older change and
/// the subscriber's watermark are symbolic (the fully symbolic variant needs > 8 GB: thorough)
#[cfg_attr(kani, kani::proof)]
#[cfg_attr(kani, kani::unwind(18))]
#[cfg_attr(not(kani), test)]
fn c13_q_promotion_global_fallback() {
    promotion_global_fallback(5, 9, 2);
}

#[cfg_attr(kani, kani::proof)]
#[cfg_attr(kani, kani::unwind(18))]
#[cfg_attr(not(kani), test)]
fn c13_x_promotion_global_fallback_any_change() {
    promotion_global_fallback(any_u16(), any_u32(), any_u32());
}

/// Report timing (64-bit multiply by TICK_HZ: SMT-exported). `now` and all stamps arbitrary.
#[cfg_attr(kani, kani::proof)]
#[cfg_attr(kani, kani::unwind(4))]
#[cfg_attr(not(kani), test)]
fn c13_q_report_timing() {
    let mut s = any_sub(u64::MAX);
    let hz = embassy_time::TICK_HZ;
    let primed = any_bool();
    let rep = any_u64();
    // stamps far from the 64-bit horizon (584 000 years of ticks): no saturation cases
    assume(rep < (1u64 << 62));
    s.reported_at = if primed { Instant::from_ticks(rep) } else { Instant::MAX };
    s.retry_at = if any_bool() { Instant::MIN } else { Instant::from_ticks(any_u64()) };
    let now_t = any_u64();
    assume(now_t < (1u64 << 62));
    let now = Instant::from_ticks(now_t);
    let min_t = s.min_int_secs as u64 * hz;
    let max_t = s.max_int_secs as u64 * hz;
    let retry_t = s.retry_at.as_ticks();

    // expiry: exactly one maximum interval after the last SUCCESSFUL report
    let exp = s.is_expired(now);
    if primed {
        vassert!(exp == (now_t >= rep + max_t), "ROLE:expired-iff-max-interval-since-last-success");
    } else {
        vassert!(!exp, "ROLE:unprimed-subscription-never-expired");
    }
    // not more often than the minimum interval, and not before a pending retry
    let allowed = s.is_report_allowed(now);
    if primed {
        vassert!(allowed == (now_t >= rep + min_t && now_t >= retry_t), "ROLE:report-allowed-iff-min-interval-and-retry-gate-passed");
    } else {
        vassert!(allowed == (now_t >= retry_t), "ROLE:priming-report-allowed-immediately(after retry gate)");
    }
    // liveness: due (without any change) no later than the maximum interval
    let due = s.is_report_due(now);
    if primed {
        let half = (s.max_int_secs - s.max_int_secs / 2) as u64 * hz;
        vassert!(due == (now_t >= rep + half), "ROLE:liveness-report-due-at-half-max-interval");
        if now_t >= rep + max_t {
            vcover!(true);
            vassert!(due, "ROLE:liveness-report-due-before-max-interval-elapses");
        }
    } else {
        vassert!(due, "ROLE:priming-report-due-immediately");
    }
    // a reportable subscription is always an allowed one
    let t = ChangedAttrs::new();
    if s.is_reportable(now, &[], &t, any_u64()) {
        vcover!(true);
        vassert!(allowed, "ROLE:never-reported-inside-min-interval");
    }
    // the wake-up prediction is never before the gate
    let nra = s.next_report_at(&[], &t, any_u64());
    vassert!(nra >= s.report_allowed_at(), "ROLE:next-wakeup-not-before-min-interval-gate");
}

/// Retry back-off after failed reports: 2 s doubling, capped at the maximum interval.
#[cfg_attr(kani, kani::proof)]
#[cfg_attr(not(kani), test)]
fn c13_q_retry_backoff() {
    let f = any_u8();
    let max = any_u16();
    let d = Subscription::retry_backoff_secs(f, max);
    vassert!(d >= 2 || d == max.max(2), "ROLE:retry-backoff-at-least-base");
    vassert!(d <= max.max(2), "ROLE:retry-backoff-never-beyond-max-interval");
    if f >= 1 {
        let prev = Subscription::retry_backoff_secs(f - 1, max);
        vassert!(d >= prev, "ROLE:retry-backoff-non-decreasing");
    }
    if f <= 1 {
        vassert!(d == 2u16.min(max.max(2)), "ROLE:first-retry-after-base-delay");
    }
}
