//! Solver harnesses mounted into rs-matter/src/transport/exchange.rs
#![allow(unused_imports, dead_code)]
use super::*;
