//! Solver harnesses mounted into rs-matter/src/group_keys.rs
#![allow(unused_imports, dead_code)]
use super::*;
