//! C16 - decoder safety and length-in-bounds harnesses, mounted into rs-matter/src/tlv/read.rs.
//!
//! P5: every public accessor, on EVERY byte string up to the bound, returns Ok or Err - the
//! compiled code's own panic / overflow / bounds / unwinding checks are the assertions, plus
//! "what comes back lies inside the input".
#![allow(unused_imports, dead_code)]
use super::*;
use crate::verif_support::*;
use crate::{vassert, vcover};

/// `s` is a sub-slice of `whole` (pointer range check).
fn within(whole: &[u8], s: &[u8]) -> bool {
    if s.is_empty() {
        return true;
    }
    // same-allocation pointer difference (Kani checks the precondition of `offset_from`, so a
    // slice pointing anywhere else is reported as well)
    let off = unsafe { s.as_ptr().offset_from(whole.as_ptr()) };
    off >= 0 && (off as usize) + s.len() <= whole.len()
}

const TAG_SIZE: [usize; 8] = [0, 1, 2, 4, 2, 4, 6, 8];

/// Reference decoder for integers, written from the TLV specification (control byte = tag form
/// in bits 7..5, element type in bits 4..0; types 0-3 signed 1/2/4/8 bytes, 4-7 unsigned;
/// little endian): Some((value bits, width, signed)) iff `b` starts with a complete integer.
fn ref_int(b: &[u8]) -> Option<(u64, usize, bool)> {
    if b.is_empty() {
        return None;
    }
    let vt = b[0] & 0x1f;
    if vt > 7 {
        return None;
    }
    let ts = TAG_SIZE[(b[0] >> 5) as usize];
    let w = 1usize << (vt & 3);
    if b.len() < 1 + ts + w {
        return None;
    }
    let mut v: u64 = 0;
    let mut i = w;
    while i > 0 {
        v = (v << 8) | b[1 + ts + i - 1] as u64;
        i -= 1;
    }
    Some((v, w, vt < 4))
}
fn sign_extend(v: u64, w: usize) -> i64 {
    match w {
        1 => v as u8 as i8 as i64,
        2 => v as u16 as i16 as i64,
        4 => v as u32 as i32 as i64,
        _ => v as i64,
    }
}

/// Element header arithmetic over ALL 10-byte prefixes (control, tag up to 8 bytes / length
/// field up to 8 bytes incl. the value 2^64-1): `len()` must not overflow.
#[cfg_attr(kani, kani::proof)]
#[cfg_attr(not(kani), test)]
fn c16_q_len_header_arith_10() {
    let b: [u8; 10] = any_bytes::<10>();
    let s = TLVSequence(&b);
    let r = s.len();
    vcover!(r.is_ok());
    vcover!(r.is_err());
    if let Ok(c) = s.control() {
        // a string whose (in-range) length field says more than the buffer holds
        vcover!(c.value_type.variable_size_len() == 8);
    }
}

/// The same for 18-byte prefixes: 8-byte tag AND 8-byte length field.
#[cfg_attr(kani, kani::proof)]
#[cfg_attr(not(kani), test)]
fn c16_q_len_header_arith_18() {
    let b: [u8; 18] = any_bytes::<18>();
    let s = TLVSequence(&b);
    let r = s.len();
    vcover!(r.is_ok());
}

/// Scalar accessors on every byte string of length <= 10 (symbolic length).
#[cfg_attr(kani, kani::proof)]
#[cfg_attr(kani, kani::unwind(12))]
#[cfg_attr(not(kani), test)]
fn c16_q_scalar_accessors_10() {
    let b: [u8; 10] = any_bytes::<10>();
    let len = any_usize();
    assume(len <= 10);
    let e = TLVElement::new(&b[..len]);
    let _ = e.control();
    let _ = e.tag();
    let _ = e.i8();
    let _ = e.u8();
    let _ = e.i16();
    let _ = e.u16();
    let _ = e.i32();
    let _ = e.u32();
    let r = e.u64();
    let _ = e.f32();
    let _ = e.f64();
    let _ = e.bool();
    let _ = e.null();
    let _ = e.is_container();
    let _ = e.confirm_anon();
    let _ = e.ctx();
    let _ = e.try_ctx();
    if let Ok(s) = e.str() {
        vcover!(s.len() == 3);
        vassert!(within(&b[..len], s), "ROLE:string-value-within-input");
    }
    if let Ok(s) = e.octets() {
        vassert!(within(&b[..len], s), "ROLE:string-value-within-input");
    }
    vcover!(r.is_ok());
    vcover!(len == 0);
}

/// Differential oracle: the widest integer accessors and the element length agree with a
/// reference decoder on EVERY byte string of length <= 10.
#[cfg_attr(kani, kani::proof)]
#[cfg_attr(kani, kani::unwind(12))]
#[cfg_attr(not(kani), test)]
fn c16_q_integer_decode_equals_reference_10() {
    let b: [u8; 10] = any_bytes::<10>();
    let len = any_usize();
    assume(len <= 10);
    let e = TLVElement::new(&b[..len]);
    let ri = e.i64();
    let r = e.u64();
    // differential oracle: the widest accessors agree with the reference decoder on EVERY input
    match ref_int(&b[..len]) {
        Some((v, _w, false)) => {
            vcover!(_w == 8);
            vassert!(r.ok() == Some(v), "ROLE:unsigned-decode-equals-reference");
            vassert!(ri.is_err(), "ROLE:unsigned-element-is-not-signed");
        }
        Some((v, w, true)) => {
            vcover!(w == 2);
            vassert!(ri.ok() == Some(sign_extend(v, w)), "ROLE:signed-decode-equals-reference");
            vassert!(r.is_err(), "ROLE:signed-element-is-not-unsigned");
        }
        None => {
            vassert!(r.is_err() && ri.is_err(), "ROLE:non-integer-or-truncated-input-rejected");
        }
    }
    // element length: header arithmetic against the reference
    if let Some((_, w, _)) = ref_int(&b[..len]) {
        let ts = TAG_SIZE[(b[0] >> 5) as usize];
        vassert!(TLVSequence(&b[..len]).len().ok() == Some(1 + ts + w), "ROLE:integer-element-length-equals-reference");
    }
    vcover!(len == 10);
}

/// Reference decoder for strings (types 0x0c..0x0f UTF-8, 0x10..0x13 octets; length field of
/// 1/2/4/8 bytes, little endian): Some((offset, length)) of the value iff `b` starts with a
/// complete string element.
fn ref_str(b: &[u8]) -> Option<(usize, usize)> {
    if b.is_empty() {
        return None;
    }
    let vt = b[0] & 0x1f;
    if !(0x0c..=0x13).contains(&vt) {
        return None;
    }
    let ts = TAG_SIZE[(b[0] >> 5) as usize];
    let w = 1usize << (vt & 3);
    if b.len() < 1 + ts + w {
        return None;
    }
    let mut l: u64 = 0;
    let mut i = w;
    while i > 0 {
        l = (l << 8) | b[1 + ts + i - 1] as u64;
        i -= 1;
    }
    let off = 1 + ts + w;
    if l > (b.len() - off) as u64 {
        return None;
    }
    Some((off, l as usize))
}

/// Differential oracle for strings: on EVERY byte string <= 12, `octets()` returns exactly the
/// slice the reference decoder designates (all four length-field widths, all tag forms), and
/// refuses everything else (truncated, length beyond the input, not a string).
#[cfg_attr(kani, kani::proof)]
#[cfg_attr(kani, kani::unwind(14))]
#[cfg_attr(not(kani), test)]
fn c16_q_string_decode_equals_reference_12() {
    let b: [u8; 12] = any_bytes::<12>();
    let len = any_usize();
    assume(len <= 12);
    let e = TLVElement::new(&b[..len]);
    // `octets()` is the accessor for both string families; `str()` is the octet-string-only one
    let r = e.octets();
    let is_octets = (0x10..=0x13).contains(&(b[0] & 0x1f));
    match ref_str(&b[..len]) {
        Some((off, l)) => {
            vcover!(l == 2 && b[0] & 3 == 2);
            vassert!(e.str().is_ok() == is_octets, "ROLE:str-accessor-accepts-exactly-octet-strings");
            vassert!(r.is_ok(), "ROLE:well-formed-string-accepted");
            if let Ok(s) = r {
                vassert!(s.len() == l, "ROLE:string-length-equals-reference");
                let o = unsafe { s.as_ptr().offset_from(b.as_ptr()) };
                vassert!(l == 0 || o == off as isize, "ROLE:string-value-position-equals-reference");
            }
        }
        None => {
            vcover!(len > 5);
            vassert!(r.is_err(), "ROLE:malformed-or-truncated-string-rejected");
        }
    }
}

/// `raw_value` / `container_len` on every byte string <= 6 (quick): whatever length is reported
/// lies within the input.
fn walk_len<const N: usize>() {
    let b: [u8; N] = any_bytes::<N>();
    let len = any_usize();
    assume(len <= N);
    let s = TLVSequence(&b[..len]);
    if let Ok(l) = s.container_len() {
        vcover!(l == len && len > 2);
        vassert!(l <= len, "ROLE:container-len-within-input");
    }
    let e = TLVElement::new(&b[..len]);
    if let Ok(v) = e.raw_value() {
        vassert!(within(&b[..len], v), "ROLE:raw-value-within-input");
    }
}

#[cfg_attr(kani, kani::proof)]
#[cfg_attr(kani, kani::unwind(7))]
#[cfg_attr(not(kani), test)]
fn c16_q_container_len_5() {
    walk_len::<5>();
}

#[cfg_attr(kani, kani::proof)]
#[cfg_attr(kani, kani::unwind(9))]
#[cfg_attr(not(kani), test)]
fn c16_t_container_len_7() {
    walk_len::<7>();
}


/// Element iterator over a container: terminates within len+1 steps, every element handed out
/// is a sub-slice of the input.
fn walk_iter<const N: usize>() {
    let b: [u8; N] = any_bytes::<N>();
    let len = any_usize();
    assume(len <= N);
    let e = TLVElement::new(&b[..len]);
    if let Ok(seq) = e.container() {
        let mut n = 0usize;
        let mut it = seq.iter();
        loop {
            match it.next() {
                None => break,
                Some(Err(_)) => break,
                Some(Ok(el)) => {
                    vassert!(within(&b[..len], el.raw_data()), "ROLE:iter-element-within-input");
                    vassert!(!el.is_empty(), "ROLE:iter-element-non-empty");
                    n += 1;
                    vassert!(n <= len, "ROLE:iter-terminates");
                }
            }
        }
        vcover!(n >= 1);
    }
}

#[cfg_attr(kani, kani::proof)]
#[cfg_attr(kani, kani::unwind(6))]
#[cfg_attr(not(kani), test)]
fn c16_t_iter_4() {
    walk_iter::<4>();
}

#[cfg_attr(kani, kani::proof)]
#[cfg_attr(kani, kani::unwind(8))]
#[cfg_attr(not(kani), test)]
fn c16_x_iter_6() {
    walk_iter::<6>();
}


/// The flattening (tag, value) iterator `tlv_iter` over an arbitrary sequence.
fn walk_tlv_iter<const N: usize>() {
    let b: [u8; N] = any_bytes::<N>();
    let len = any_usize();
    assume(len <= N);
    let seq = TLVSequence(&b[..len]);
    let mut it = seq.tlv_iter();
    let mut n = 0usize;
    loop {
        match it.next() {
            None => break,
            Some(Err(_)) => break,
            Some(Ok(_)) => {
                n += 1;
                vassert!(n <= len, "ROLE:tlv-iter-terminates");
            }
        }
    }
    vcover!(n >= 1);
}

#[cfg_attr(kani, kani::proof)]
#[cfg_attr(kani, kani::unwind(6))]
#[cfg_attr(kani, kani::stub(core::str::from_utf8, stub_from_utf8))]
#[cfg_attr(not(kani), test)]
fn c16_x_tlv_iter_4() {
    walk_tlv_iter::<4>();
}

#[cfg_attr(kani, kani::proof)]
#[cfg_attr(kani, kani::unwind(8))]
#[cfg_attr(kani, kani::stub(core::str::from_utf8, stub_from_utf8))]
#[cfg_attr(not(kani), test)]
fn c16_x_tlv_iter_6() {
    walk_tlv_iter::<6>();
}

/// The flattening iterator on well-formed skeletons with symbolic scalar payloads: it yields
/// start / members / end markers of nested containers in order, and writing the yielded TLVs
/// back reproduces the bytes ("re-encoding a decoded element reproduces its bytes", iterator
/// flavour).
#[cfg_attr(kani, kani::proof)]
#[cfg_attr(kani, kani::unwind(12))]
#[cfg_attr(kani, kani::stub(core::str::from_utf8, stub_from_utf8))]
#[cfg_attr(not(kani), test)]
fn c16_x_tlv_iter_nested_skeleton() {
    use crate::tlv::{TLVWrite, ToTLV};
    use crate::utils::storage::WriteBuf;
    let (v1, v2, t) = (any_u8(), any_u8(), any_u8());
    // struct { list(ctx t) { u8 v1 }, u8(ctx 2) v2 }
    let b = [0x15u8, 0x37, t, 0x04, v1, 0x18, 0x24, 0x02, v2, 0x18];
    let e = TLVElement::new(&b);
    let mut out = [0u8; 12];
    let mut wb = WriteBuf::new(&mut out);
    let mut n = 0;
    let mut depth: i32 = 0;
    for x in e.tlv_iter(TLVTag::Anonymous) {
        vassert!(x.is_ok(), "ROLE:tlv-iter-on-well-formed-input-yields-no-error");
        if let Ok(tlv) = x {
            if tlv.value.value_type().is_container() {
                depth += 1;
            } else if tlv.value.value_type().is_container_end() {
                depth -= 1;
            }
            vassert!(depth >= 0, "ROLE:tlv-iter-container-markers-balanced");
            let fits = wb.tlv(&tlv.tag, &tlv.value).is_ok();
            vassert!(fits, "ROLE:tlv-iter-output-fits-the-original-size");
        }
        n += 1;
        vassert!(n <= 6, "ROLE:tlv-iter-terminates");
    }
    vassert!(n == 6 && depth == 0, "ROLE:tlv-iter-yields-every-element-and-marker");
    let w = wb.as_slice();
    vassert!(w.len() == 10, "ROLE:reencode-same-length");
    let mut i = 0;
    while i < 10 {
        vassert!(w[i] == b[i], "ROLE:reencode-same-bytes");
        i += 1;
    }
}

/// find_ctx / scan_ctx over a container body.
#[cfg_attr(kani, kani::proof)]
#[cfg_attr(kani, kani::unwind(6))]
#[cfg_attr(not(kani), test)]
fn c16_x_find_ctx_4() {
    let b: [u8; 4] = any_bytes::<4>();
    let len = any_usize();
    assume(len <= 4);
    let seq = TLVSequence(&b[..len]);
    let c = any_u8();
    if let Ok(e) = seq.find_ctx(c) {
        if !e.is_empty() {
            vcover!(true);
            vassert!(within(&b[..len], e.raw_data()), "ROLE:found-element-within-input");
            vassert!(e.ctx().ok() == Some(c), "ROLE:found-element-has-requested-tag");
        }
    }
    let mut s2 = TLVSequence(&b[..len]);
    if let Ok(e) = s2.scan_ctx(c) {
        if !e.is_empty() {
            vassert!(e.ctx().ok() == Some(c), "ROLE:found-element-has-requested-tag");
        }
    }
}

/// `core::str::from_utf8` is std's validator (not the code under check; minutes in CBMC):
/// symbolic Ok/Err.
#[cfg(kani)]
pub(crate) fn stub_from_utf8(v: &[u8]) -> Result<&str, core::str::Utf8Error> {
    if any_bool() {
        Ok(unsafe { core::str::from_utf8_unchecked(v) })
    } else {
        // Utf8Error has private fields; all-zero (valid_up_to = 0, error_len = None) is a valid value
        Err(unsafe { core::mem::zeroed() })
    }
}
