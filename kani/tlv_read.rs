//! Solver harnesses mounted into rs-matter/src/tlv/read.rs
#![allow(unused_imports, dead_code)]
use super::*;
