//! Solver harnesses mounted into rs-matter/src/utils/storage/parsebuf.rs
#![allow(unused_imports, dead_code)]
use super::*;
