//! Solver harnesses mounted into rs-matter/src/transport.rs
#![allow(unused_imports, dead_code)]
use super::*;
