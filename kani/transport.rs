//! Solver harnesses mounted into rs-matter/src/transport.rs
//! (C10: the transport runner's sweep over dropped exchanges, on a real `Matter` object).
#![allow(unused_imports, dead_code, static_mut_refs)]
use super::*;
use crate::dm::devices::test::{TEST_DEV_ATT, TEST_DEV_COMM};
use crate::transport::exchange::InitiatorState;
use crate::transport::mrp::{AckEntry, RetransEntry};
use crate::transport::session::SessionMode;
use crate::verif_support::vcrypto::VerifCrypto;
use crate::verif_support::*;
use crate::{vassert, vcover, vok};

const DEV: BasicInfoConfig<'static> = BasicInfoConfig::new();

/// `Matter::new` is a `const fn`: rustc evaluates the initialiser, CBMC receives a constant
/// object (a stack `Matter::new` costs a minute of symbolic execution).
struct SyncMatter(Matter<'static>);
unsafe impl Sync for SyncMatter {}
static MATTER: SyncMatter = SyncMatter(Matter::new(&DEV, TEST_DEV_COMM, &TEST_DEV_ATT, 5540));

fn any_exch_role() -> Role {
    let k = any_u8();
    assume(k < 5);
    match k {
        0 => Role::Initiator(InitiatorState::Owned),
        1 => Role::Initiator(InitiatorState::Dropped),
        2 => Role::Responder(ResponderState::AcceptPending),
        3 => Role::Responder(ResponderState::Owned),
        _ => Role::Responder(ResponderState::Dropped),
    }
}

/// One call of `TransportRunner::handle_dropped_exchange` on a session with two exchanges in
/// every combination of role state x retransmission pending x acknowledgement pending:
///  * a dropped exchange that still has a retransmission outstanding closes its session;
///  * otherwise the first dropped exchange is closed (slot freed), after its pending
///    acknowledgement - if any - has been written as a standalone ack;
///  * an exchange that is not in the dropped state is never touched;
///  * the runner is told to wait (`Ok(true)`) exactly when there was nothing to sweep, so a
///    dropped exchange can never be left behind while the sweep sleeps.
#[cfg_attr(kani, kani::proof)]
#[cfg_attr(kani, kani::unwind(70))]
#[cfg_attr(kani, kani::stub(embassy_time::Instant::now, crate::verif_support::stub_instant_now))]
#[cfg_attr(not(kani), test)]
fn c10_x_dropped_exchange_sweep() {
    let matter: &'static Matter<'static> = &MATTER.0;
    let roles = [any_exch_role(), any_exch_role()];
    let retr = [any_bool(), any_bool()];
    let ack = [any_bool(), any_bool()];
    let acked = [any_bool(), any_bool()];
    let ack_ctr = [any_u32(), any_u32()];

    let sid = matter.with_state(|state| {
        let s = vok!(
            state.sessions.add(any_u32(), false, Address::new(), Some(77), &DEV),
            "harness-setup-call-succeeds"
        );
        crate::transport::session::verif_kani_session::set_mode(
            s,
            SessionMode::Case {
                fab_idx: NonZeroU8::new(1).unwrap(),
                cat_ids: [0; 3],
            },
        );
        let mut i = 0;
        while i < 2 {
            let idx = s.add_exch(100 + i as u16, roles[i]).unwrap();
            let e = s.exchanges[idx].as_mut().unwrap();
            if retr[i] {
                e.mrp.retrans = Some(RetransEntry::new(None, any_u32()));
            }
            if ack[i] {
                let mut a = vok!(AckEntry::new(ack_ctr[i]), "harness-setup-call-succeeds");
                a.acknowledged = acked[i];
                e.mrp.ack = Some(a);
            }
            i += 1;
        }
        s.id
    });

    let runner = TransportRunner::new(matter, VerifCrypto);
    let mut packet = Packet::<64>::new();
    let r = runner.handle_dropped_exchange(&mut packet);
    vassert!(r.is_ok(), "ROLE:dropped-exchange-sweep-succeeds");
    let wait = match r {
        Ok(w) => w,
        Err(_) => return,
    };

    let d = [roles[0].is_dropped_state(), roles[1].is_dropped_state()];
    let stuck = (d[0] && retr[0]) || (d[1] && retr[1]);
    let closable = if d[0] && !retr[0] {
        Some(0usize)
    } else if d[1] && !retr[1] {
        Some(1usize)
    } else {
        None
    };

    matter.with_state(|state| {
        let sess = state.sessions.get(sid);
        if stuck {
            vcover!(true);
            vassert!(sess.is_none(), "ROLE:dropped-exchange-with-outstanding-retransmission-closes-its-session");
            vassert!(!wait, "ROLE:sweep-does-not-sleep-after-work");
        } else if let Some(c) = closable {
            vcover!(true);
            vassert!(sess.is_some(), "ROLE:session-survives-clean-close-of-a-dropped-exchange");
            if let Some(s) = sess {
                vassert!(s.exchanges[c].is_none(), "ROLE:dropped-exchange-with-nothing-outstanding-is-closed");
                let o = 1 - c;
                vassert!(s.exchanges[o].is_some(), "ROLE:sweep-closes-one-exchange-per-call-and-never-a-live-one");
                let ack_pending = ack[c] && !acked[c];
                vassert!(
                    packet.buf.is_empty() == !ack_pending,
                    "ROLE:pending-ack-of-a-dropped-exchange-is-sent-before-it-is-closed"
                );
                if ack_pending {
                    vassert!(
                        packet.header.proto.get_ack() == Some(ack_ctr[c]),
                        "ROLE:pending-ack-of-a-dropped-exchange-is-sent-before-it-is-closed"
                    );
                    vassert!(
                        packet.header.proto.exch_id == 100 + c as u16,
                        "ROLE:standalone-ack-goes-out-on-the-dropped-exchange"
                    );
                }
            }
            vassert!(!wait, "ROLE:sweep-does-not-sleep-after-work");
        } else {
            vcover!(true);
            vassert!(wait, "ROLE:sweep-sleeps-only-when-nothing-is-dropped");
            vassert!(packet.buf.is_empty(), "ROLE:nothing-sent-when-nothing-is-dropped");
            vassert!(sess.is_some(), "ROLE:live-session-untouched-by-sweep");
            if let Some(s) = sess {
                vassert!(
                    s.exchanges[0].is_some() && s.exchanges[1].is_some(),
                    "ROLE:sweep-closes-one-exchange-per-call-and-never-a-live-one"
                );
            }
        }
    });
}
