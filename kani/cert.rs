//! Solver harnesses mounted into rs-matter/src/cert.rs
#![allow(unused_imports, dead_code)]
use super::*;
