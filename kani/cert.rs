//! C19 - chain decision logic of `CertVerifier` (add_cert / verify_usage / finalise) against a
//! reference predicate over ABSTRACT certificate attributes; mounted into rs-matter/src/cert.rs.
//! The TLV field extraction of `CertRef` is replaced by accessor stubs (symbolic attributes);
//! the signature primitive by a recording oracle. Counterexamples are CBMC traces (compiler-level
//! stubs cannot be replayed by the native build).
#![allow(unused_imports, dead_code, static_mut_refs)]
use super::*;
use crate::dm::clusters::time_sync::UtcTime;
use crate::verif_support::vcrypto::{VerifCrypto, REC};
use crate::verif_support::*;
use crate::{vassert, vcover, vok};

#[derive(Copy, Clone)]
pub(crate) struct Attrs {
    ty: u8, // 0 NOC, 1 ICAC, 2 RCAC
    is_ca: bool,
    has_bc: bool,
    path_len: Option<u8>,
    ku: Option<u16>,
    eku_ok: bool,
    crit: bool,
    nb: u32,
    na: u32,
}
const A0: Attrs = Attrs { ty: 0, is_ca: false, has_bc: true, path_len: None, ku: None, eku_ok: false, crit: false, nb: 0, na: 0 };
static mut ATTRS: [Attrs; 3] = [A0; 3];
/// LINK[i][j]: certificate i names certificate j's subject key as its authority key
static mut LINK: [[bool; 3]; 3] = [[false; 3]; 3];
/// `UtcTime::any_secs` / `reliable_secs` divide 64-bit microseconds by 10^6 (does not finish in
/// CaDiCaL / cvc5 / z3): replaced by symbolic seconds, shared with the reference.
static mut T_ANY: u64 = 0;
static mut T_REL: Option<u64> = None;
#[cfg(kani)]
fn s_any_secs(_t: &UtcTime) -> u64 {
    unsafe { T_ANY }
}
#[cfg(kani)]
fn s_reliable_secs(_t: &UtcTime) -> Option<u64> {
    unsafe { T_REL }
}
static PK: [u8; 65] = [4; 65];
static SIG: [u8; 64] = [7; 64];

/// certificates are told apart by the first byte of their (dummy) body: 0 leaf, 1 intermediate, 2 root
fn idx(c: &CertRef) -> usize {
    (c.0.raw_data()[0] % 3) as usize
}
#[cfg(kani)]
mod stubs {
    use super::*;
    pub fn s_is_authority<'a>(c: &CertRef<'a>, their: &CertRef) -> Result<bool, Error> where 'a: 'a { unsafe { Ok(LINK[idx(c)][idx(their)]) } }
    pub fn s_as_asn1<'a>(_c: &CertRef<'a>, _buf: &mut [u8]) -> Result<usize, Error> where 'a: 'a { Ok(1) }
    pub fn s_pubkey<'a>(_c: &CertRef<'a>) -> Result<&'a [u8], Error> where 'a: 'a { Ok(&PK) }
    pub fn s_signature<'a>(_c: &CertRef<'a>) -> Result<&'a [u8], Error> where 'a: 'a { Ok(&SIG) }
    pub fn s_not_before<'a>(c: &CertRef<'a>) -> Result<u32, Error> where 'a: 'a { unsafe { Ok(ATTRS[idx(c)].nb) } }
    pub fn s_not_after<'a>(c: &CertRef<'a>) -> Result<u32, Error> where 'a: 'a { unsafe { Ok(ATTRS[idx(c)].na) } }
    pub fn s_crit<'a>(c: &CertRef<'a>) -> Result<bool, Error> where 'a: 'a { unsafe { Ok(ATTRS[idx(c)].crit) } }
    pub fn s_type<'a>(c: &CertRef<'a>) -> Result<MatterCertType, Error> where 'a: 'a {
        unsafe { Ok(match ATTRS[idx(c)].ty { 0 => MatterCertType::Noc, 1 => MatterCertType::Icac, _ => MatterCertType::Rcac }) }
    }
    pub fn s_ku<'a>(c: &CertRef<'a>) -> Result<Option<u16>, Error> where 'a: 'a { unsafe { Ok(ATTRS[idx(c)].ku) } }
    pub fn s_bc<'a>(c: &CertRef<'a>) -> Result<Option<(bool, Option<u8>)>, Error> where 'a: 'a {
        unsafe { let a = ATTRS[idx(c)]; Ok(if a.has_bc { Some((a.is_ca, a.path_len)) } else { None }) }
    }
    pub fn s_eku<'a>(c: &CertRef<'a>, _r: &[u8]) -> Result<bool, Error> where 'a: 'a { unsafe { Ok(ATTRS[idx(c)].eku_ok) } }
}
#[cfg(kani)]
use stubs::*;

fn any_attrs() -> Attrs {
    let ty = any_u8();
    assume(ty < 3);
    Attrs {
        ty,
        is_ca: any_bool(),
        has_bc: any_bool(),
        path_len: if any_bool() { Some(any_u8()) } else { None },
        ku: if any_bool() { Some(any_u16()) } else { None },
        eku_ok: any_bool(),
        crit: any_bool(),
        nb: any_u32(),
        na: any_u32(),
    }
}

// ---- reference predicate, written from the property text -------------------------------------
fn ref_time_ok(a: &Attrs, _t: &UtcTime) -> bool {
    let (any, rel) = unsafe { (T_ANY, T_REL) };
    (a.na == 0 || any <= a.na as u64) && rel.map(|s| s >= a.nb as u64).unwrap_or(true)
}
/// depth = position in the chain (0 = leaf)
fn ref_usage_ok(a: &Attrs, depth: u8) -> bool {
    if a.crit {
        return false; // unknown critical extension
    }
    let Some(ku) = a.ku else { return false };
    if a.ty == 0 {
        // leaf: non-CA with digitalSignature and server+client auth; never an authority
        depth == 0 && a.has_bc && !a.is_ca && ku & 0x0001 != 0 && a.eku_ok
    } else {
        // authority: CA with keyCertSign, within its path length limit
        a.has_bc && a.is_ca && ku & 0x0020 != 0 && (a.path_len.is_none() || depth == 0 || (depth - 1) <= a.path_len.unwrap())
    }
}

/// NOC -> RCAC and NOC -> ICAC -> RCAC: accepted iff every link is an authority link with a
/// good signature, every certificate is inside its validity window and satisfies the usage
/// policy of its position, and the root verifies against itself.
#[cfg_attr(kani, kani::proof)]
#[cfg_attr(kani, kani::unwind(4))]
#[cfg_attr(kani, kani::stub(CertRef::is_authority, s_is_authority))]
#[cfg_attr(kani, kani::stub(CertRef::as_asn1, s_as_asn1))]
#[cfg_attr(kani, kani::stub(CertRef::pubkey, s_pubkey))]
#[cfg_attr(kani, kani::stub(CertRef::signature, s_signature))]
#[cfg_attr(kani, kani::stub(CertRef::not_before, s_not_before))]
#[cfg_attr(kani, kani::stub(CertRef::not_after, s_not_after))]
#[cfg_attr(kani, kani::stub(CertRef::has_critical_future_extension, s_crit))]
#[cfg_attr(kani, kani::stub(CertRef::cert_type, s_type))]
#[cfg_attr(kani, kani::stub(CertRef::key_usage, s_ku))]
#[cfg_attr(kani, kani::stub(CertRef::basic_constraints, s_bc))]
#[cfg_attr(kani, kani::stub(CertRef::ext_key_usage_has_all, s_eku))]
#[cfg_attr(kani, kani::stub(UtcTime::any_secs, s_any_secs))]
#[cfg_attr(kani, kani::stub(UtcTime::reliable_secs, s_reliable_secs))]
#[cfg_attr(not(kani), test)]
#[cfg_attr(not(kani), ignore)]
fn c19_q_chain_decision_equals_reference() {
    let with_icac = any_bool();
    let sig = [any_bool(), any_bool(), any_bool(), true];
    unsafe {
        ATTRS[0] = any_attrs();
        ATTRS[1] = any_attrs();
        ATTRS[2] = any_attrs();
        let mut i = 0;
        while i < 3 {
            let mut j = 0;
            while j < 3 {
                LINK[i][j] = any_bool();
                j += 1;
            }
            i += 1;
        }
        REC.sig_ok = sig;
        REC.verify_calls = 0;
    }
    let (b0, b1, b2) = ([0u8], [1u8], [2u8]);
    let noc = CertRef::new(TLVElement::new(&b0));
    let icac = CertRef::new(TLVElement::new(&b1));
    let root = CertRef::new(TLVElement::new(&b2));
    let secs = any_u64();
    let reliable = any_bool();
    unsafe {
        T_ANY = secs;
        T_REL = if reliable { Some(secs) } else { None };
    }
    let time = if reliable { UtcTime::Reliable(0) } else { UtcTime::LastKnown(0) };
    let mut buf = [0u8; 8];
    let r = if with_icac {
        noc.verify_chain_start(VerifCrypto, time)
            .add_cert(&icac, &mut buf)
            .and_then(|v| v.add_cert(&root, &mut buf))
            .and_then(|v| v.finalise(&mut buf))
    } else {
        noc.verify_chain_start(VerifCrypto, time)
            .add_cert(&root, &mut buf)
            .and_then(|v| v.finalise(&mut buf))
    };
    let (a, ic, rt, link) = unsafe { (ATTRS[0], ATTRS[1], ATTRS[2], LINK) };
    let expect = if with_icac {
        link[0][1] && sig[0] && ref_time_ok(&a, &time) && ref_usage_ok(&a, 0)
            && link[1][2] && sig[1] && ref_time_ok(&ic, &time) && ref_usage_ok(&ic, 1)
            && link[2][2] && sig[2] && ref_time_ok(&rt, &time) && ref_usage_ok(&rt, 2)
    } else {
        link[0][2] && sig[0] && ref_time_ok(&a, &time) && ref_usage_ok(&a, 0)
            && link[2][2] && sig[1] && ref_time_ok(&rt, &time) && ref_usage_ok(&rt, 1)
    };
    vassert!(r.is_ok() == expect, "ROLE:chain-accepted-iff-reference-predicate");
    vcover!(r.is_ok() && with_icac);
    vcover!(r.is_ok() && !with_icac);
    // each rule individually (so that dropping one rule names itself)
    if r.is_ok() {
        vassert!(a.ty != 0 || (!a.is_ca && a.eku_ok), "ROLE:leaf-is-non-CA-with-server-and-client-auth");
        vassert!(a.ku.map(|k| k & if a.ty == 0 { 1 } else { 0x20 } != 0).unwrap_or(false), "ROLE:leaf-key-usage-enforced");
        vassert!(rt.is_ca && rt.ty != 0 && rt.ku.map(|k| k & 0x20 != 0).unwrap_or(false), "ROLE:root-is-CA-with-keyCertSign");
        vassert!(!a.crit && !rt.crit && (!with_icac || !ic.crit), "ROLE:unknown-critical-extension-rejected");
        vassert!(link[2][2], "ROLE:root-must-verify-against-itself");
        vassert!(sig[0] && sig[1] && (!with_icac || sig[2]), "ROLE:every-signature-checked");
        vassert!(a.na == 0 || secs <= a.na as u64, "ROLE:expired-leaf-rejected");
        vassert!(!reliable || secs >= a.nb as u64, "ROLE:not-yet-valid-leaf-rejected(reliable time)");
        if with_icac {
            vassert!(ic.is_ca && ic.ty != 0, "ROLE:intermediate-is-CA");
            vassert!(rt.path_len.map(|p| p >= 1).unwrap_or(true), "ROLE:root-path-length-covers-the-intermediate");
            vassert!(link[0][1] && link[1][2], "ROLE:issuer-subject-links-checked");
        } else {
            vassert!(link[0][2], "ROLE:issuer-subject-links-checked");
        }
        unsafe {
            vassert!(REC.verify_calls == if with_icac { 3 } else { 2 }, "ROLE:one-signature-verification-per-link");
        }
    }
}


// ==========================================================================================
// The extended-key-usage accessor on REAL certificate TLV bytes (the chain harness above
// replaces it by a symbolic attribute): a certificate skeleton
//   struct { 10: list { 3: array [ v0, .., v(N-1) ] } }
// with concrete structure and symbolic purposes, decided against "every required purpose is
// a member of the list". One harness per list length (the structure stays concrete).
// ==========================================================================================
fn eku_accessor_equals_reference<const N: usize>() {
    // 0x15 struct, 0x37 0x0a list ctx 10, 0x36 0x03 array ctx 3, N x (0x04 v), 0x18 0x18 0x18
    let mut bytes = [0u8; 5 + 2 * 3 + 3];
    bytes[0] = 0x15;
    bytes[1] = 0x37;
    bytes[2] = 0x0a;
    bytes[3] = 0x36;
    bytes[4] = 0x03;
    let mut v = [0u8; 3];
    let mut i = 0;
    while i < N {
        v[i] = any_u8();
        bytes[5 + 2 * i] = 0x04;
        bytes[6 + 2 * i] = v[i];
        i += 1;
    }
    bytes[5 + 2 * N] = 0x18;
    bytes[6 + 2 * N] = 0x18;
    bytes[7 + 2 * N] = 0x18;
    let cert = CertRef::new(crate::tlv::TLVElement::new(&bytes[..8 + 2 * N]));

    let required = [any_u8(), any_u8()];
    let r = cert.ext_key_usage_has_all(&required);
    vassert!(r.is_ok(), "ROLE:eku-accessor-decodes-wellformed-extension");
    let got = match r {
        Ok(b) => b,
        Err(_) => return,
    };
    let mut has = [false; 2];
    let mut k = 0;
    while k < 2 {
        let mut i = 0;
        while i < N {
            if v[i] == required[k] {
                has[k] = true;
            }
            i += 1;
        }
        k += 1;
    }
    vcover!(got);
    vcover!(!got);
    vassert!(got == (has[0] && has[1]), "ROLE:eku-accepted-iff-every-required-purpose-is-listed");
    // the NOC rule as verify_usage asks it
    let noc = cert.ext_key_usage_has_all(&[1, 2]);
    let mut one = false;
    let mut two = false;
    let mut i = 0;
    while i < N {
        one |= v[i] == 1;
        two |= v[i] == 2;
        i += 1;
    }
    vassert!(matches!(noc, Ok(b) if b == (one && two)), "ROLE:noc-eku-needs-both-serverAuth-and-clientAuth");
}

#[cfg_attr(kani, kani::proof)]
#[cfg_attr(kani, kani::unwind(12))]
#[cfg_attr(not(kani), test)]
fn c19_q_eku_accessor_equals_reference_2() {
    eku_accessor_equals_reference::<2>();
}

#[cfg_attr(kani, kani::proof)]
#[cfg_attr(kani, kani::unwind(12))]
#[cfg_attr(not(kani), test)]
fn c19_q_eku_accessor_equals_reference_3() {
    eku_accessor_equals_reference::<3>();
}

#[cfg_attr(kani, kani::proof)]
#[cfg_attr(kani, kani::unwind(12))]
#[cfg_attr(not(kani), test)]
fn c19_q_eku_accessor_equals_reference_1() {
    eku_accessor_equals_reference::<1>();
}
