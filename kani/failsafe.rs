//! Solver harnesses mounted into rs-matter/src/failsafe.rs
#![allow(unused_imports, dead_code)]
use super::*;
