//! C08 (fail-safe command gate and arm/expiry transitions) and C07 (rollback leaves nothing
//! bound to the dropped fabric), mounted into rs-matter/src/failsafe.rs.
#![allow(unused_imports, dead_code)]
use super::*;
use crate::transport::session::SessionMode;
use crate::verif_support::*;
use crate::{vassert, vcover, vok};
use core::num::NonZeroU8;

fn any_mode() -> SessionMode {
    let k = any_u8();
    assume(k < 4);
    let f = any_u8();
    match k {
        0 => SessionMode::PlainText,
        1 => SessionMode::Pase { fab_idx: f },
        2 => {
            assume(f != 0);
            SessionMode::Case { fab_idx: NonZeroU8::new(f).unwrap(), cat_ids: [0; 3] }
        }
        _ => {
            assume(f != 0);
            SessionMode::Group { fab_idx: NonZeroU8::new(f).unwrap(), group_id: any_u16() }
        }
    }
}

fn any_failsafe() -> (FailSafe, bool, u8, u8) {
    let mut fs = FailSafe::new();
    let armed = any_bool();
    let bits = any_u8();
    let flags = NocFlags::from_bits_truncate(bits);
    let fab = any_u8();
    if armed {
        fs.state = State::Armed(ArmedCtx {
            armed_at: Instant::from_ticks(any_u64()),
            timeout_secs: any_u16(),
            fab_idx: fab,
            flags,
        });
    }
    (fs, armed, flags.bits(), fab)
}

const CSR_ADD: u8 = 0x01;
const CSR_UPD: u8 = 0x02;
const ROOT: u8 = 0x04;
const NOC_ADD: u8 = 0x08;
const NOC_UPD: u8 = 0x10;

/// Reference gate (from the property text): a credential command passes iff the fail-safe is
/// armed, the session is not plaintext, (UpdateNOC => CASE), the session's fabric is the
/// context's fabric, every required predecessor was received and no excluded one.
fn ref_gate(armed: bool, flags: u8, ctx_fab: u8, mode: &SessionMode, present: u8, absent: u8, is_update_noc: bool) -> bool {
    armed
        && !matches!(mode, SessionMode::PlainText)
        && (!is_update_noc || matches!(mode, SessionMode::Case { .. }))
        && mode.fab_idx() == ctx_fab
        && flags & present == present
        && flags & absent == 0
}

/// The truth table of `check_state` for the four command kinds, over every fail-safe context.
#[cfg_attr(kani, kani::proof)]
#[cfg_attr(kani, kani::unwind(4))]
#[cfg_attr(not(kani), test)]
fn c08_q_command_gate_truth_table() {
    let (fs, armed, flags, fab) = any_failsafe();
    let mode = any_mode();
    // AddNOC
    let r = fs.check_state(&mode, NocFlags::ADD_ROOT_CERT_RECVD | NocFlags::ADD_CSR_REQ_RECVD,
        NocFlags::ADD_NOC_RECVD | NocFlags::UPDATE_CSR_REQ_RECVD | NocFlags::UPDATE_NOC_RECVD, NocFlags::ADD_NOC_RECVD);
    vassert!(r.is_ok() == ref_gate(armed, flags, fab, &mode, ROOT | CSR_ADD, NOC_ADD | CSR_UPD | NOC_UPD, false), "ROLE:AddNOC-gate-equals-reference");
    // UpdateNOC
    let r = fs.check_state(&mode, NocFlags::UPDATE_CSR_REQ_RECVD,
        NocFlags::ADD_ROOT_CERT_RECVD | NocFlags::ADD_NOC_RECVD | NocFlags::ADD_CSR_REQ_RECVD | NocFlags::UPDATE_NOC_RECVD, NocFlags::UPDATE_NOC_RECVD);
    vassert!(r.is_ok() == ref_gate(armed, flags, fab, &mode, CSR_UPD, ROOT | NOC_ADD | CSR_ADD | NOC_UPD, true), "ROLE:UpdateNOC-gate-equals-reference");
    // AddTrustedRootCertificate
    let r = fs.check_state(&mode, NocFlags::empty(), NocFlags::ADD_ROOT_CERT_RECVD, NocFlags::ADD_ROOT_CERT_RECVD);
    vassert!(r.is_ok() == ref_gate(armed, flags, fab, &mode, 0, ROOT, false), "ROLE:AddTrustedRoot-gate-equals-reference");
    // CSRRequest
    let r = fs.check_state(&mode, NocFlags::empty(), NocFlags::ADD_CSR_REQ_RECVD | NocFlags::UPDATE_CSR_REQ_RECVD, NocFlags::ADD_CSR_REQ_RECVD);
    vassert!(r.is_ok() == ref_gate(armed, flags, fab, &mode, 0, CSR_ADD | CSR_UPD, false), "ROLE:CSRRequest-gate-equals-reference");
    if let Err(e) = &r {
        if !armed {
            vcover!(true);
            vassert!(e.code() == ErrorCode::FailSafeRequired, "ROLE:unarmed-yields-FailSafeRequired");
        } else if matches!(mode, SessionMode::PlainText) {
            vassert!(e.code() == ErrorCode::GennCommInvalidAuthentication, "ROLE:plaintext-yields-InvalidAuthentication");
        } else if mode.fab_idx() != fab {
            vcover!(true);
            vassert!(e.code() == ErrorCode::NocInvalidFabricIndex, "ROLE:foreign-session-context-yields-InvalidFabricIndex");
        }
    }
}

/// CSRRequest (both kinds) through the real entry points with an oracle key generator:
/// accepted iff the gate says so; sets exactly its own flag, once; a refused command leaves
/// the context unchanged.
#[cfg_attr(kani, kani::proof)]
#[cfg_attr(kani, kani::unwind(40))]
#[cfg_attr(not(kani), test)]
fn c08_q_csr_request_sets_its_flag_once() {
    let (mut fs, armed, flags, fab) = any_failsafe();
    let mode = any_mode();
    let update = any_bool();
    let r = if update {
        fs.update_csr_req(crate::verif_support::vcrypto::VerifCrypto, &mode).map(|_| ())
    } else {
        fs.add_csr_req(crate::verif_support::vcrypto::VerifCrypto, &mode).map(|_| ())
    };
    let expect = ref_gate(armed, flags, fab, &mode, 0, CSR_ADD | CSR_UPD, false)
        && (!update || matches!(mode, SessionMode::Case { .. }));
    vassert!(r.is_ok() == expect, "ROLE:CSRRequest-accepted-iff-gate");
    let now_flags = match &fs.state {
        State::Armed(c) => Some((c.flags.bits(), c.fab_idx)),
        State::Idle => None,
    };
    if r.is_ok() {
        vcover!(update);
        vcover!(!update);
        let own = if update { CSR_UPD } else { CSR_ADD };
        vassert!(now_flags == Some((flags | own, fab)), "ROLE:accepted-command-sets-exactly-its-own-flag");
        // ... and cannot be repeated in the same context
        let again = if update {
            fs.update_csr_req(crate::verif_support::vcrypto::VerifCrypto, &mode).map(|_| ())
        } else {
            fs.add_csr_req(crate::verif_support::vcrypto::VerifCrypto, &mode).map(|_| ())
        };
        vassert!(again.is_err(), "ROLE:command-accepted-once-per-fail-safe-context");
    } else {
        vassert!(now_flags == if armed { Some((flags, fab)) } else { None }, "ROLE:refused-command-leaves-context-unchanged");
    }
}

/// arm / re-arm / ArmFailSafe(0).
#[cfg_attr(kani, kani::proof)]
#[cfg_attr(kani, kani::unwind(4))]
#[cfg_attr(kani, kani::stub(embassy_time::Instant::now, crate::verif_support::stub_instant_now))]
#[cfg_attr(not(kani), test)]
fn c08_q_arm_rearm_disarm() {
    let (mut fs, armed, flags, fab) = any_failsafe();
    let mode = any_mode();
    let mut pase = crate::sc::pase::Pase::new();
    let tmo = any_u16();
    let bc = any_u64();
    set_now(any_u64());
    let r = fs.arm(tmo, bc, &mode, &mut pase);
    if !armed {
        // no window open here: arming needs a secure session
        vassert!(r.is_ok() == !matches!(mode, SessionMode::PlainText), "ROLE:arming-requires-a-secure-session");
        if r.is_ok() {
            vcover!(true);
            let ok = match &fs.state {
                State::Armed(c) => c.fab_idx == mode.fab_idx() && c.flags.is_empty() && c.timeout_secs == tmo && c.armed_at.as_ticks() == now_ticks(),
                State::Idle => false,
            };
            vassert!(ok, "ROLE:fresh-context-bound-to-the-arming-session-with-no-flags");
            vassert!(fs.breadcrumb() == bc, "ROLE:breadcrumb-recorded");
        } else {
            vassert!(!fs.is_armed(), "ROLE:refused-arm-leaves-idle");
        }
    } else {
        let same_ctx = !matches!(mode, SessionMode::PlainText) && mode.fab_idx() == fab;
        vassert!(r.is_ok() == same_ctx, "ROLE:re-arm-only-from-the-arming-session-context");
        if r.is_ok() && tmo == 0 {
            vcover!(true);
            vassert!(!fs.is_armed() && fs.breadcrumb() == 0, "ROLE:ArmFailSafe(0)-disarms");
        } else if r.is_ok() {
            let ok = match &fs.state {
                State::Armed(c) => c.fab_idx == fab && c.flags.bits() == flags && c.timeout_secs == tmo && c.armed_at.as_ticks() == now_ticks(),
                State::Idle => false,
            };
            vassert!(ok, "ROLE:re-arm-restarts-the-timer-and-keeps-the-context");
        } else {
            let ok = match &fs.state {
                State::Armed(c) => c.fab_idx == fab && c.flags.bits() == flags,
                State::Idle => false,
            };
            vassert!(ok, "ROLE:refused-command-leaves-context-unchanged");
        }
    }
}

struct KA;
impl KvBlobStoreAccess for KA {
    fn access<F, R>(&self, f: F) -> R
    where
        F: FnOnce(&mut dyn crate::persist::KvBlobStore, &mut [u8]) -> R,
    {
        let mut s = crate::persist::DummyKvBlobStore;
        let mut buf = [0u8; 16];
        f(&mut s, &mut buf)
    }
}

/// Timer-driven expiry fires iff now >= armed_at + timeout (context without a fabric, empty
/// session table: the cheap path through `expire`).
#[cfg_attr(kani, kani::proof)]
#[cfg_attr(kani, kani::unwind(8))]
#[cfg_attr(kani, kani::stub(embassy_time::Instant::now, crate::verif_support::stub_instant_now))]
#[cfg_attr(not(kani), test)]
fn c08_q_expiry_fires_iff_timeout_elapsed() {
    let mut fabrics = Fabrics::new();
    let mut sessions = crate::transport::session::Sessions::new();
    let mut fs = FailSafe::new();
    let armed_at = any_u64();
    let tmo = any_u16();
    assume(armed_at < (1u64 << 62));
    fs.state = State::Armed(ArmedCtx {
        armed_at: Instant::from_ticks(armed_at),
        timeout_secs: tmo,
        fab_idx: 0,
        flags: NocFlags::from_bits_truncate(any_u8()),
    });
    fs.breadcrumb = any_u64();
    set_now(any_u64());
    let r = fs.check_failsafe_timeout(&mut fabrics, &mut sessions, crate::dm::clusters::net_comm::DummyNetworkAccess, KA, None, || {}, |_, _| {});
    vassert!(r.is_ok(), "ROLE:expiry-check-succeeds");
    let due = now_ticks() >= armed_at + tmo as u64 * embassy_time::TICK_HZ;
    vassert!(fs.is_armed() == !due, "ROLE:expiry-fires-iff-timeout-elapsed");
    if due {
        vcover!(true);
        vassert!(fs.breadcrumb() == 0, "ROLE:expiry-disarms-and-clears-breadcrumb");
    }
    vcover!(!due);
}

/// Rollback of a fabric that was added in this fail-safe context (no persisted copy): the
/// fabric is gone, the fail-safe idle, breadcrumb 0, and NO session of any kind still carries
/// the dropped fabric's index (except the answering session, which is expired) - C07.
/// Concrete scene: fabric 1 added under the fail-safe; a CASE session on it (the commissioner
/// already went operational) and the PASE session promoted to it. (Three sessions, or a symbolic
/// choice among three answering sessions, ran out of 16 GB.)
#[cfg_attr(kani, kani::proof)]
#[cfg_attr(kani, kani::unwind(4))]
#[cfg_attr(kani, kani::stub(embassy_time::Instant::now, crate::verif_support::stub_instant_now))]
#[cfg_attr(not(kani), test)]
fn c07_q_failsafe_rollback_leaves_no_session_on_dropped_fabric() {
    rollback_scene(false, NocFlags::ADD_ROOT_CERT_RECVD | NocFlags::ADD_CSR_REQ_RECVD | NocFlags::ADD_NOC_RECVD);
}

/// ... the same with the trigger arriving over the (promoted) PASE session, which is kept -
/// expired - to send the answer.
#[cfg_attr(kani, kani::proof)]
#[cfg_attr(kani, kani::unwind(4))]
#[cfg_attr(kani, kani::stub(embassy_time::Instant::now, crate::verif_support::stub_instant_now))]
#[cfg_attr(not(kani), test)]
fn c07_q_failsafe_rollback_keeping_the_answering_session() {
    rollback_scene(true, NocFlags::ADD_ROOT_CERT_RECVD | NocFlags::ADD_CSR_REQ_RECVD | NocFlags::ADD_NOC_RECVD);
}

/// C08: what expiry undoes does not depend on which credential commands were received in the
/// context. The in-memory fabric the fail-safe is bound to is replaced by its persisted copy -
/// here: none, so it must be gone - for EVERY flag set (a fail-safe armed over a CASE session of
/// an existing fabric carries no NOC flag at all, yet ACL / group writes made under it are only
/// in memory and rely on this reload to be undone).
#[cfg_attr(kani, kani::proof)]
#[cfg_attr(kani, kani::unwind(4))]
#[cfg_attr(kani, kani::stub(embassy_time::Instant::now, crate::verif_support::stub_instant_now))]
#[cfg_attr(not(kani), test)]
fn c08_q_expiry_reloads_the_bound_fabric_for_every_flag_set() {
    rollback_scene(false, NocFlags::from_bits_truncate(any_u8()));
}

fn rollback_scene(keep_pase: bool, flags: NocFlags) {
    let mut fabrics = Fabrics::new();
    vok!(fabrics.add_with_post_init(|_| Ok(())), "add-fabric");
    let mut sessions = crate::transport::session::Sessions::new();
    let dev = &crate::transport::session::verif_kani_session::DEV;
    let case_id = {
        let s = vok!(sessions.add(1, false, crate::transport::network::Address::new(), Some(77), dev), "add-session");
        crate::transport::session::verif_kani_session::set_mode(s, SessionMode::Case { fab_idx: NonZeroU8::new(1).unwrap(), cat_ids: [0; 3] });
        s.id()
    };
    let pase_id = {
        let s = vok!(sessions.add(2, false, crate::transport::network::Address::new(), None, dev), "add-session");
        crate::transport::session::verif_kani_session::set_mode(s, SessionMode::Pase { fab_idx: 1 });
        s.id()
    };
    let mut fs = FailSafe::new();
    fs.state = State::Armed(ArmedCtx {
        armed_at: Instant::from_ticks(0),
        timeout_secs: 60,
        fab_idx: 1,
        flags,
    });
    fs.breadcrumb = 5;
    // the trigger (ArmFailSafe(0) / RevokeCommissioning / timer) arrived over the PASE session,
    // over the CASE session, or over none of them
    let keep: Option<u32> = if keep_pase { Some(pase_id) } else { None };
    let _ = case_id;
    let r = fs.expire(&mut fabrics, &mut sessions, keep, crate::dm::clusters::net_comm::DummyNetworkAccess, KA, || {}, |_, _| {});
    vassert!(r.is_ok(), "ROLE:expiry-check-succeeds");
    vassert!(!fs.is_armed() && fs.breadcrumb() == 0, "ROLE:expiry-disarms-and-clears-breadcrumb");
    vassert!(fabrics.get(NonZeroU8::new(1).unwrap()).is_none(), "ROLE:expiry-replaces-the-bound-fabric-by-its-persisted-copy(none: fabric dropped)");
    vassert!(r.ok().flatten() == NonZeroU8::new(1), "ROLE:rollback-reports-the-dropped-fabric");
    let no_case_left = sessions.iter().all(|s| !(s.get_local_fabric_idx() == 1 && matches!(s.get_session_mode(), SessionMode::Case { .. })));
    vassert!(no_case_left, "ROLE:no-CASE-session-of-the-dropped-fabric-survives-rollback");
    let pase_ok = sessions.iter().all(|s| !matches!(s.get_session_mode(), SessionMode::Pase { .. }) || (Some(s.id()) == keep && s.is_expired()));
    vassert!(pase_ok, "ROLE:no-PASE-session-survives-rollback(except the answering one, expired)");
}
