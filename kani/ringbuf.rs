//! C18 - the real ring buffer against a FIFO reference at N = 8, plus the abstract FIFO that
//! stands in for the production `RingBuf<3166>` inside the BTP session harnesses (its
//! 3166-iteration `resize_default` loop does not fit CBMC: 15 min measured).
#![allow(unused_imports, dead_code, static_mut_refs)]
use super::*;
use crate::verif_support::*;
use crate::{vassert, vcover};

// ---- abstract FIFO (one instance): 48-byte content + capacity accounting ----------------------
pub(crate) const M_CAP: usize = 48;
pub(crate) static mut M_BUF: [u8; M_CAP] = [0; M_CAP];
pub(crate) static mut M_LEN: usize = 0;
/// bytes the abstract buffer pretends to hold already (content unknown) - lets a harness start
/// from an arbitrary fill level of the production buffer
pub(crate) static mut M_GHOST_USED: usize = 0;

pub(crate) fn model_reset(ghost_used: usize) {
    unsafe {
        M_LEN = 0;
        M_GHOST_USED = ghost_used;
    }
}
pub(crate) fn model_push<const N: usize>(_rb: &mut RingBuf<N>, data: &[u8]) -> usize {
    unsafe {
        let mut i = 0;
        while i < data.len() {
            if M_LEN < M_CAP {
                M_BUF[M_LEN] = data[i];
                M_LEN += 1;
            }
            i += 1;
        }
        M_LEN + M_GHOST_USED
    }
}
pub(crate) fn model_pop<const N: usize>(_rb: &mut RingBuf<N>, out: &mut [u8]) -> usize {
    unsafe {
        let n = core::cmp::min(out.len(), M_LEN);
        let mut i = 0;
        while i < n {
            out[i] = M_BUF[i];
            i += 1;
        }
        let mut j = 0;
        while j + n < M_LEN {
            M_BUF[j] = M_BUF[j + n];
            j += 1;
        }
        M_LEN -= n;
        n
    }
}
pub(crate) fn model_pop_byte<const N: usize>(rb: &mut RingBuf<N>) -> Option<u8> {
    let mut b = [0u8; 1];
    if model_pop(rb, &mut b) == 1 {
        Some(b[0])
    } else {
        None
    }
}
pub(crate) fn model_free<const N: usize>(_rb: &RingBuf<N>) -> usize {
    unsafe { N - core::cmp::min(N, M_LEN + M_GHOST_USED) }
}

// ---- the real ring buffer, N = 8, against a FIFO reference --------------------------------------
/// push(a) ; pop(lo) ; push(b) ; pop(all): lengths, free space and byte order agree with a FIFO,
/// for every content and every split (wrap-around inside the 8-byte storage included).
#[cfg_attr(kani, kani::proof)]
#[cfg_attr(kani, kani::unwind(10))]
#[cfg_attr(not(kani), test)]
fn c18_q_ringbuf8_fifo() {
    let mut rb: RingBuf<8> = RingBuf::new();
    let a: [u8; 4] = any_bytes::<4>();
    let la = any_usize();
    assume(la <= 4);
    let b: [u8; 4] = any_bytes::<4>();
    let lb = any_usize();
    assume(lb <= 4);
    // start somewhere in the storage so that the second push wraps
    let pre = any_usize();
    assume(pre <= 7);
    let z = [0u8; 8];
    rb.push(&z[..pre]);
    let mut sink = [0u8; 8];
    let _ = rb.pop(&mut sink[..pre]);
    vassert!(rb.is_empty() && rb.len() == 0, "ROLE:ringbuf-empty-after-draining");

    rb.push(&a[..la]);
    let mut out1 = [0u8; 4];
    let lo = any_usize();
    assume(lo <= 4);
    let n1 = rb.pop(&mut out1[..lo]);
    vassert!(n1 == core::cmp::min(lo, la), "ROLE:ringbuf-pop-count");
    let mut i = 0;
    while i < n1 {
        vassert!(out1[i] == a[i], "ROLE:ringbuf-fifo-order");
        i += 1;
    }
    rb.push(&b[..lb]);
    vassert!(rb.len() == la - n1 + lb, "ROLE:ringbuf-len-accounting");
    vassert!(rb.free() == 8 - rb.len(), "ROLE:ringbuf-free-accounting");
    let mut out2 = [0u8; 8];
    let n2 = rb.pop(&mut out2);
    vassert!(n2 == la - n1 + lb, "ROLE:ringbuf-pop-count");
    let mut k = 0;
    while k < n2 {
        let expect = if k < la - n1 { a[n1 + k] } else { b[k - (la - n1)] };
        vassert!(out2[k] == expect, "ROLE:ringbuf-fifo-order");
        k += 1;
    }
    vassert!(rb.is_empty(), "ROLE:ringbuf-empty-after-draining");
    vcover!(pre == 7 && la == 4 && lb == 4 && lo == 1);
}
