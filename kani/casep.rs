//! Solver harnesses mounted into rs-matter/src/sc/case/casep.rs
#![allow(unused_imports, dead_code)]
use super::*;
