//! C09 - MRP state machine and back-off arithmetic, mounted into rs-matter/src/transport/mrp.rs.
#![allow(unused_imports, dead_code)]
use super::*;
use crate::transport::plain_hdr::PlainHdr;
use crate::transport::proto_hdr::ProtoHdr;
use crate::verif_support::*;
use crate::{vassert, vcover, vok};

/// Retransmission budget: an entry allows exactly MRP_MAX_TRANSMISSIONS transmissions; the one
/// after that is `TxTimeout`, never Ok.
#[cfg_attr(kani, kani::proof)]
#[cfg_attr(kani, kani::unwind(8))]
#[cfg_attr(not(kani), test)]
fn c09_q_retrans_budget() {
    let ctr = any_u32();
    let base = if any_bool() { Some(any_u32()) } else { None };
    let mut e = RetransEntry::new(base, ctr);
    vassert!(e.counter == 0 && e.get_msg_ctr() == ctr, "ROLE:new-entry-starts-at-zero-attempts");
    vassert!(e.base_delay_interval_ms != 0, "ROLE:base-interval-never-zero");
    let c = any_u16();
    e.counter = c;
    let r = e.pre_send(ctr);
    if c < MRP_MAX_TRANSMISSIONS {
        vcover!(c == MRP_MAX_TRANSMISSIONS - 1);
        vassert!(r.is_ok() && e.counter == c + 1, "ROLE:attempt-counted");
    } else {
        vcover!(c == MRP_MAX_TRANSMISSIONS);
        let timeout = match &r {
            Err(e) => e.code() == ErrorCode::TxTimeout,
            Ok(_) => false,
        };
        vassert!(timeout, "ROLE:budget-exhausted-yields-TxTimeout-never-Ok");
        vassert!(e.counter == c, "ROLE:budget-exhausted-counts-nothing");
    }
}

/// Full ladder from a fresh entry: exactly MRP_MAX_TRANSMISSIONS (5) successes, then TxTimeout.
#[cfg_attr(kani, kani::proof)]
#[cfg_attr(kani, kani::unwind(9))]
#[cfg_attr(not(kani), test)]
fn c09_q_retrans_ladder_from_new() {
    let ctr = any_u32();
    let mut e = RetransEntry::new(None, ctr);
    let mut ok = 0;
    let mut i = 0;
    while i < 7 {
        if e.pre_send(ctr).is_ok() {
            vassert!(ok == i, "ROLE:no-success-after-a-timeout");
            ok += 1;
        }
        i += 1;
    }
    vassert!(ok == 5, "ROLE:exactly-five-transmissions");
}

/// `ReliableMessage::pre_send`: the timeout is propagated (not swallowed) and clears the
/// pending entry; a pending ack is piggy-backed exactly once marked acknowledged.
#[cfg_attr(kani, kani::proof)]
#[cfg_attr(kani, kani::unwind(8))]
#[cfg_attr(kani, kani::stub(embassy_time::Instant::now, crate::verif_support::stub_instant_now))]
#[cfg_attr(not(kani), test)]
fn c09_q_reliable_pre_send() {
    let mut m = ReliableMessage::new();
    let ctr = any_u32();
    let has_retrans = any_bool();
    let attempts = any_u16();
    assume(attempts <= MRP_MAX_TRANSMISSIONS);
    if has_retrans {
        let mut e = RetransEntry::new(None, ctr);
        e.counter = attempts;
        m.retrans = Some(e);
    }
    let has_ack = any_bool();
    let ack_ctr = any_u32();
    if has_ack {
        m.ack = Some(vok!(AckEntry::new(ack_ctr), "ack-entry"));
    }
    let mut plain = PlainHdr::new();
    plain.ctr = ctr;
    let mut proto = ProtoHdr::new();
    let reliable = any_bool();
    if reliable {
        proto.set_reliable();
    }
    let r = m.pre_send(&plain, &mut proto, if any_bool() { Some(any_u32()) } else { None }, None);
    if has_ack {
        vcover!(true);
        vassert!(proto.get_ack() == Some(ack_ctr), "ROLE:pending-ack-is-piggybacked-with-its-counter");
    } else {
        vassert!(proto.get_ack().is_none(), "ROLE:no-ack-invented");
    }
    if reliable && has_retrans && attempts == MRP_MAX_TRANSMISSIONS {
        vcover!(true);
        let timeout = match &r {
            Err(e) => e.code() == ErrorCode::TxTimeout,
            Ok(_) => false,
        };
        vassert!(timeout, "ROLE:budget-exhausted-yields-TxTimeout-never-Ok");
        vassert!(m.retrans.is_none(), "ROLE:give-up-clears-the-pending-entry");
    } else {
        vassert!(r.is_ok(), "ROLE:send-within-budget-succeeds");
        if reliable {
            vassert!(m.retrans.as_ref().map(|e| e.get_msg_ctr()) == Some(ctr), "ROLE:reliable-send-remembers-its-counter");
            if !has_retrans {
                vassert!(m.retrans.as_ref().map(|e| e.counter) == Some(0), "ROLE:first-transmission-has-zero-retries");
            }
        } else if !has_retrans {
            vassert!(m.retrans.is_none(), "ROLE:unreliable-send-awaits-no-ack");
        }
    }
}

/// `ReliableMessage::post_recv`: ack matching and ack generation.
#[cfg_attr(kani, kani::proof)]
#[cfg_attr(kani, kani::unwind(8))]
#[cfg_attr(kani, kani::stub(embassy_time::Instant::now, crate::verif_support::stub_instant_now))]
#[cfg_attr(not(kani), test)]
fn c09_q_reliable_post_recv() {
    let mut m = ReliableMessage::new();
    let pending = any_u32();
    let has_retrans = any_bool();
    if has_retrans {
        m.retrans = Some(RetransEntry::new(None, pending));
    }
    let had_ack = any_bool();
    let old_ack = any_u32();
    if had_ack {
        m.ack = Some(vok!(AckEntry::new(old_ack), "ack-entry"));
    }
    let mut plain = PlainHdr::new();
    plain.ctr = any_u32();
    let mut proto = ProtoHdr::new();
    let ack: Option<u32> = if any_bool() { Some(any_u32()) } else { None };
    proto.set_ack(ack);
    let rel = any_bool();
    if rel {
        proto.set_reliable();
    }
    let r = m.post_recv(&plain, &proto);
    if has_retrans {
        match ack {
            Some(a) if a == pending => {
                vcover!(true);
                vassert!(r.is_ok(), "ROLE:matching-ack-accepted");
                vassert!(m.retrans.is_none(), "ROLE:matching-ack-clears-the-pending-entry");
            }
            Some(_) => {
                vcover!(true);
                let dup = match &r {
                    Err(e) => e.code() == ErrorCode::Duplicate,
                    Ok(_) => false,
                };
                vassert!(dup, "ROLE:foreign-ack-is-Duplicate");
                vassert!(m.retrans.as_ref().map(|e| e.get_msg_ctr()) == Some(pending), "ROLE:foreign-ack-changes-nothing");
                vassert!(m.ack.as_ref().map(|a| a.get_msg_ctr()) == (if had_ack { Some(old_ack) } else { None }), "ROLE:foreign-ack-changes-nothing");
            }
            None => {
                vassert!(r.is_ok(), "ROLE:message-without-ack-accepted");
                vassert!(m.retrans.is_some(), "ROLE:only-a-matching-ack-clears-the-pending-entry");
            }
        }
    } else {
        vassert!(r.is_ok(), "ROLE:message-accepted-when-nothing-pending");
    }
    if r.is_ok() {
        if rel {
            vcover!(true);
            // an ack entry is created only from a received reliable message and carries its counter
            vassert!(m.ack.as_ref().map(|a| a.get_msg_ctr()) == Some(plain.ctr), "ROLE:ack-owed-for-exactly-the-received-counter");
            vassert!(m.is_ack_pending(), "ROLE:received-reliable-message-leaves-ack-pending");
        } else if !(has_retrans && ack == Some(pending)) {
            vassert!(m.ack.as_ref().map(|a| a.get_msg_ctr()) == (if had_ack { Some(old_ack) } else { None }), "ROLE:unreliable-message-creates-no-ack");
        }
    }
}

/// Back-off arithmetic against the specification formula
///   t = base * 1.1 * 1.6^max(0, n-1) * (1 + rand * 0.25),  rand in [0,1]
/// one harness per transmission count n (concrete n => concrete loop), for every base interval
/// up to 2^22 ms (70 min; stated bound - chains of 64-bit multiply/divide by constants over the
/// full u32 range finished neither in CaDiCaL nor in cvc5/z3 within 600 s) and every jitter byte.
/// Integer evaluation may round DOWN by < 1 ms per division (each scaled by later factors):
/// never later than the real-valued formula, never more than 14 ms earlier.
fn backoff_vs_spec(counter: u16) {
    let base = any_u32();
    assume(base < (1 << 22));
    let d0 = RetransEntry::backoff_ms(base, counter, 0);
    // spec without jitter, exact rational: base * 11 * 16^k / (10 * 10^k), k = max(0, n-1)
    let b = base as u64;
    let spec_floor = match counter {
        0 | 1 => b * 11 / 10,
        2 => b * 176 / 100,
        3 => b * 2816 / 1000,
        4 => b * 45056 / 10000,
        _ => b * 720896 / 100000,
    };
    vassert!(d0 <= spec_floor, "ROLE:backoff-never-above-the-formula(rounding down only)");
    vassert!(d0 + 14 >= spec_floor, "ROLE:backoff-not-earlier-than-formula-minus-14ms");
    vassert!(d0 >= b, "ROLE:backoff-at-least-the-base-interval");
    // jitter: concrete bytes incl. both extremes (jitter * delay is a symbolic-by-symbolic
    // product that neither CaDiCaL nor cvc5/z3 decide within 600 s)
    let d1 = RetransEntry::backoff_ms(base, counter, 1);
    let d128 = RetransEntry::backoff_ms(base, counter, 128);
    let dmax = RetransEntry::backoff_ms(base, counter, 255);
    vassert!(d0 <= d1 && d1 <= d128 && d128 <= dmax, "ROLE:jitter-never-shortens-and-is-monotone(0,1,128,255)");
    vassert!(dmax <= d0 + d0 / 4, "ROLE:jitter-at-most-25-percent");
    vassert!(dmax + 1 >= d0 + d0 / 4, "ROLE:maximum-jitter-reaches-25-percent");
    // (the ladder being non-decreasing follows from d0(n) >= formula(n) - 14 and d0(n-1) <= formula(n-1))
    vcover!(base > 1000);
}
macro_rules! backoff_harness {
    ($name:ident, $n:expr) => {
        #[cfg_attr(kani, kani::proof)]
        #[cfg_attr(kani, kani::unwind(8))]
        #[cfg_attr(not(kani), test)]
        fn $name() {
            backoff_vs_spec($n);
        }
    };
}
backoff_harness!(c09_q_backoff_vs_spec_n0, 0);
backoff_harness!(c09_q_backoff_vs_spec_n1, 1);
backoff_harness!(c09_q_backoff_vs_spec_n2, 2);
backoff_harness!(c09_q_backoff_vs_spec_n3, 3);
backoff_harness!(c09_q_backoff_vs_spec_n4, 4);
backoff_harness!(c09_q_backoff_vs_spec_n5, 5);

// The receive-timeout ladder sum (`retransmission_timeout_ms` = sum of five maximum-jitter steps)
// is NOT decided: equivalence of two chains of 64-bit multiply/divide circuits finished in no back
// end (CaDiCaL, cvc5, cvc5 bv-as-int, z3 4.8 / 5.1: 600 s each). Stated as outside in DESIGN.md.

/// Two ends composed (sender A, receiver B; the network delivers each datagram once): A's
/// reliable message is acknowledged by B's next message of any kind on the exchange - with A's
/// counter - and that acknowledgement, and only that, ends A's retransmissions; B's own reliable
/// reply is then the one thing A owes an acknowledgement for.
#[cfg_attr(kani, kani::proof)]
#[cfg_attr(kani, kani::unwind(8))]
#[cfg_attr(kani, kani::stub(embassy_time::Instant::now, crate::verif_support::stub_instant_now))]
#[cfg_attr(not(kani), test)]
fn c09_q_two_ends_ack_roundtrip() {
    let mut a = ReliableMessage::new();
    let mut b = ReliableMessage::new();
    // A sends message `ca` reliably
    let ca = any_u32();
    let mut plain_a = PlainHdr::new();
    plain_a.ctr = ca;
    let mut proto_a = ProtoHdr::new();
    proto_a.set_reliable();
    vok!(a.pre_send(&plain_a, &mut proto_a, None, None), "first-send");
    vassert!(a.retrans.is_some() && proto_a.get_ack().is_none(), "ROLE:reliable-send-remembers-its-counter");
    // B receives it
    vok!(b.post_recv(&plain_a, &proto_a), "delivery");
    vassert!(b.ack.is_some(), "ROLE:received-reliable-message-schedules-an-ack");
    // B answers (reliably or not) with its own counter `cb`
    let cb = any_u32();
    let mut plain_b = PlainHdr::new();
    plain_b.ctr = cb;
    let mut proto_b = ProtoHdr::new();
    let b_reliable = any_bool();
    if b_reliable {
        proto_b.set_reliable();
    }
    vok!(b.pre_send(&plain_b, &mut proto_b, None, None), "answer");
    vassert!(proto_b.get_ack() == Some(ca), "ROLE:answer-acknowledges-exactly-the-received-counter");
    // A receives the answer
    vok!(a.post_recv(&plain_b, &proto_b), "delivery-of-answer");
    vassert!(a.retrans.is_none(), "ROLE:matching-ack-ends-retransmission");
    vassert!(a.ack.is_some() == b_reliable, "ROLE:ack-owed-iff-the-answer-requested-one");
    if b_reliable {
        vcover!(true);
        // A's next message carries the acknowledgement of `cb`, which ends B's retransmissions
        let mut plain_a2 = PlainHdr::new();
        plain_a2.ctr = ca.wrapping_add(1);
        let mut proto_a2 = ProtoHdr::new();
        vok!(a.pre_send(&plain_a2, &mut proto_a2, None, None), "second-send");
        vassert!(proto_a2.get_ack() == Some(cb), "ROLE:answer-acknowledges-exactly-the-received-counter");
        vok!(b.post_recv(&plain_a2, &proto_a2), "delivery-of-second");
        vassert!(b.retrans.is_none(), "ROLE:matching-ack-ends-retransmission");
    }
}
