//! Solver harnesses mounted into rs-matter/src/transport/mrp.rs
#![allow(unused_imports, dead_code)]
use super::*;
