#!/bin/sh
# usage: ./run_all.sh [quick|thorough]  - runs every claimed check, prints one summary line each
cd /verif || exit 2
TIER=${1:-quick}
for P in $(python3 -c "import json;print(' '.join(c['property_id'] for c in json.load(open('MANIFEST.json'))['checks']))"); do
  S=$(date +%s)
  ./check $P $TIER > .build/check_$P.$TIER.log 2>&1
  RC=$?
  E=$(date +%s)
  echo "$P $TIER exit=$RC wall=$((E-S))s $(grep -c '^KNOWN-FINDING' .build/check_$P.$TIER.log) known, $(grep -c '^VIOLATION' .build/check_$P.$TIER.log) violations, $(grep -c '^INCONCLUSIVE' .build/check_$P.$TIER.log) inconclusive"
done
