#!/bin/sh
# Offline setup after a fresh restore: encode /repo once with Kani (warms cargo's cache under
# /verif/.build/kani) and pre-build the native replay test binaries (used only when a check
# finds a counterexample).
cd /verif || exit 1
export CARGO_NET_OFFLINE=true
python3 engine/run.py build || exit 1
python3 engine/run.py replay-build || true
exit 0
